#!/venv/bin/python
"""Writes seeded/RESULTS.md from seeded/*/meta.json."""
import json, os
HERE = os.path.dirname(os.path.abspath(__file__))
rows = []
for name in sorted(os.listdir(os.path.join(HERE, "seeded"))):
    mp = os.path.join(HERE, "seeded", name, "meta.json")
    if not os.path.exists(mp):
        continue
    m = json.load(open(mp))
    det = []
    for p, rs in m["ran"].get("checks", {}).items():
        hit = [r for r in rs if r["exit"] == 1 and any("VIOLATION" in l for l in r.get("first_violation", []))]
        if hit:
            sub = ""
            for l in hit[0]["first_violation"]:
                if "subcheck=" in l:
                    sub = l.split("subcheck=")[1].split(" ")[0]
            det.append(f"{p} ({sub}; {len(hit)}/{len(rs)} seeds)")
    need = " ".join(m["needs_to_manifest"].split())
    need = need[:230] + ("…" if len(need) > 230 else "")
    rows.append((name, m["breaks_property"], m.get("origin", "")[:40], ", ".join(det) or "**MISSED**",
                 m["ran"].get("baseline_suite_with_patch", ""), need))
with open(os.path.join(HERE, "seeded", "RESULTS.md"), "w") as f:
    f.write("# Seeded faults: which check catches which change\n\n")
    f.write("Each row is a source change kept under `seeded/<name>/` (patch.diff, demo.py, meta.json). `R-*` rows are reverse "
            "patches of the `fix:` commits (the original defects); the others were written by independent sub-agents that saw "
            "only the property text. Every patch leaves the pinned test-suite at 170 passed. Re-run all: `./tools_seeded.py all`.\n\n")
    f.write("| seeded fault | breaks | caught by (sub-check; seeds) | suite with patch | what it needs to manifest |\n|---|---|---|---|---|\n")
    for r in rows:
        f.write(f"| {r[0]} | {r[1]} | {r[3]} | {r[4].split(' in ')[0]} | {r[5].replace('|', '/')} |\n")
    n = len(rows)
    missed = [r[0] for r in rows if "MISSED" in r[3]]
    f.write(f"\n{n} seeded faults, {n - len(missed)} detected by the quick tier of the listed checks" + (f"; missed: {', '.join(missed)}" if missed else "") + ".\n")
print(open(os.path.join(HERE, "seeded", "RESULTS.md")).read()[-400:])
