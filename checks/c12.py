"""C12 — note cells and packed bit-fields are lossless; sub-field setters independent.

Complete enumeration:
 (a) notes: every NOTECMD x every vel 0..129; each of module/ctl/val over all 65536 values;
     8-byte encoding decodes to an equal note and re-encodes to the same bytes;
 (b) patterns: shapes {1..4}x{1..4} + (4,32), (32,1), (3,64): a k-distinct byte image set through
     Pattern.raw_data and through a PDTA chunk of a file reads back / saves back identically and
     is row-major;
 (c) packed words, (old word, sub-field, new value): Note.ctl / Note.val (quick: old high byte x
     {0,0xA5,0xFF} low byte and vice versa; thorough: all 65536 old words) x all 256 new values x 4
     sub-fields; Visualization words with defined members x reserved bits {clear,set} x every
     sub-field x every in-domain new value; MIDI-in (always x channel 0..31) and the two sync
     fields (8 x 8) through SMII / SFGS with every (old, new) pair.
"""
import itertools
from struct import pack

from checks import common as C
from rvmc import treeenv
from rvref import codec

PROPERTY = "C12"
LEVEL = "exploration"
ASSUMPTIONS = [
    "module.visualization returns a fresh wrapper object; sub-field setters are exercised on that word object "
    "and written back with mod.visualization = int(word)",
    "reserved visualization bits: 6-7, 13-15, 28-31 (docs: 'reserved'); bit 5 is the orientation flag",
]

RESERVED_VIS = 0xF000E0C0
VIS = {  # field -> (shift, mask, in-domain values)
    "level_mode": (0, 0x1F, list(range(5))),
    "orientation": (5, 0x1, [0, 1]),
    "oscilloscope_mode": (8, 0x1F, list(range(8))),
    "oscilloscope_size": (16, 0xFF, list(range(256))),
    "bg_transparency": (24, 0x3, list(range(4))),
    "shadow_opacity": (26, 0x3, list(range(4))),
}


# ----------------------------------------------------------------------------- (a) notes
def notes_sweep(part):
    from rv.note import NOTECMD, Note

    vs = []
    n = 0

    def one(cell):
        nonlocal n
        n += 1
        raw = pack("<BBHHH", *cell)
        nt = Note()
        nt.raw_data = raw
        got = (int(nt.note), nt.vel, nt.module, nt.ctl, nt.val)
        out = nt.raw_data
        nt2 = Note(note=NOTECMD(cell[0]), vel=cell[1], module=cell[2], ctl=cell[3], val=cell[4])
        if got != tuple(cell) or out != raw or len(out) != 8 or nt2.raw_data != raw or \
                nt2.controller != cell[3] >> 8 or nt2.effect != cell[3] & 0xFF or \
                nt2.val_xx != cell[4] >> 8 or nt2.val_yy != cell[4] & 0xFF:
            if len(vs) < 5:
                vs.append(C.viol("note-codec", {"part": part}, {"cell": cell, "decoded": got, "bytes": out.hex()},
                                 {"cell": list(cell)}))

    if part == "cmd-vel":
        for cmd in NOTECMD:
            for vel in range(130):
                one((int(cmd), vel, 0, 0, 0))
                one((int(cmd), vel, 0xFFFF, 0xA55A, 0x5AA5))
    else:
        idx = {"module": 2, "ctl": 3, "val": 4}[part]
        for w in range(65536):
            for base in ((0, 0, 0, 0, 0), (120, 129, 0xFFFF, 0xFFFF, 0xFFFF)):
                cell = list(base)
                cell[idx] = w
                one(tuple(cell))
    return n, vs


# ----------------------------------------------------------------------------- (b) patterns
def module_of(k):
    """k-distinct 16-bit module numbers that use the HIGH byte too (k, k+0x100, k+0x200, ... cyclically)."""
    return (k + 0x100 * (k % 7)) & 0xFFFF


def image(tracks, lines):
    out = bytearray()
    k = 0
    for _l in range(lines):
        for _t in range(tracks):
            k += 1
            out += pack("<BBHHH", 1 + k % 120, k % 130, module_of(k), (k * 257) & 0xFFFF, (k * 4099 + 7) & 0xFFFF)
    return bytes(out)


def pattern_shape(tracks, lines):
    import rv.api as rv

    vs = []
    case = {"shape": [tracks, lines]}
    key = {"shape": f"{tracks}x{lines}"}
    img = image(tracks, lines)
    pat = rv.Pattern(tracks=tracks, lines=lines)
    pat.raw_data = img
    if pat.raw_data != img:
        vs.append(C.viol("pattern-raw-data-setter", key, {}, case))
    # histories on the SAME pattern object: a sparser image set over a denser one must replace it
    ncell = tracks * lines
    sparse = b"".join(img[8 * i:8 * i + 8] if i % 2 else bytes(8) for i in range(ncell))
    module_only = b"".join(pack("<BBHHH", 0, 0, i + 1, 0, 0) for i in range(ncell))
    for step, im in enumerate((sparse, bytes(8 * ncell), module_only, img, bytes(8 * ncell), sparse)):
        pat.raw_data = im
        if pat.raw_data != im:
            vs.append(C.viol("pattern-raw-data-setter-history", dict(key, step=step), {}, case))
            break
    pat.raw_data = img
    k = 0
    for li in range(lines):
        for t in range(tracks):
            k += 1
            nt = pat.data[li][t]
            if (nt.module, nt.vel) != (module_of(k), k % 130):
                vs.append(C.viol("pattern-not-row-major", key, {"line": li, "track": t, "module": nt.module, "expected": k}, case))
                break
    # through a file: substitute the PDTA payload of a saved default pattern of that shape; the file says it
    # was written by the current version (VERS), whatever it says about the version it is BASED on (BVER)
    for bver in ((2, 1, 2, 1), (1, 9, 4, 0), (1, 7, 0, 0), None):
        p = rv.Project()
        p.attach_pattern(rv.Pattern(tracks=tracks, lines=lines))
        if bver is not None:
            p.based_on_version = bver
        chunks = codec.parse_chunks(C.save(p))
        chunks = [(i, img if i == b"PDTA" else d) for i, d in chunks if not (bver is None and i == b"BVER")]
        b = codec.build_chunks(chunks)
        p2 = C.load_bytes(b)
        if p2.patterns[0].raw_data != img:
            vs.append(C.viol("pattern-load", dict(key, based_on="absent" if bver is None else ".".join(map(str, bver))), {}, case))
            break
    # a project LOADED from a file that an old program version wrote (VERS < 1.9.5.0): images assigned to its patterns
    # afterwards are ordinary images -- what the loader had to do for the old file must not linger
    from struct import pack as _pack

    pold = rv.Project()
    pold.attach_pattern(rv.Pattern(tracks=tracks, lines=lines))
    ch_old = [(i, _pack("BBBB", 2, 4, 9, 1) if i == b"VERS" else d) for i, d in codec.parse_chunks(C.save(pold))]
    try:
        lo = C.load_bytes(codec.build_chunks(ch_old))
        lo.patterns[0].raw_data = img
        if lo.patterns[0].raw_data != img:
            vs.append(C.viol("pattern-raw-data-setter-history", dict(key, step="on-pattern-of-old-version-project"), {}, case))
        nt_ = lo.patterns[0].data[0][0]
        nt_.raw_data = _pack("<BBHHH", 5, 6, 0x0123, 7, 8)
        if nt_.module != 0x0123:
            vs.append(C.viol("note-codec", dict(key, part="module-on-note-of-old-version-project"), {"module": nt_.module}, case))
        lo.patterns[0].raw_data = img
    except Exception as e:
        vs.append(C.viol("pattern-load", dict(key, based_on="old-VERS", exc=type(e).__name__), {"error": repr(e)[:160]}, case))
    b2 = C.save(p2)
    pd = [d for i, d in codec.parse_chunks(b2) if i == b"PDTA"]
    if pd != [img]:
        vs.append(C.viol("pattern-save-not-identical", key, {}, case))
    dec = codec.decode(b2)
    cells = dec.value["patterns"][0]["cells"]
    flat = [c for row in cells for c in row]
    if len(cells) != lines or any(len(r) != tracks for r in cells) or [c[2] for c in flat] != [module_of(k) for k in range(1, tracks * lines + 1)]:
        vs.append(C.viol("pattern-independent-decode", key, {"problems": dec.problems[:3]}, case))
    return 4, vs


# ----------------------------------------------------------------------------- (c) packed note words
SUBS = ("controller", "effect", "val_xx", "val_yy")


def note_words(task):
    """task = (sub, old_words iterable spec)"""
    from rv.note import Note

    sub, olds = task[:2]
    where = task[2] if len(task) > 2 else "free"
    word_attr = "ctl" if sub in ("controller", "effect") else "val"
    other_sub = {"controller": "effect", "effect": "controller", "val_xx": "val_yy", "val_yy": "val_xx"}[sub]
    hi = sub in ("controller", "val_xx")
    vs = []
    n = 0
    nt = Note()
    mod_col = 9
    if where != "free":
        # the cell lives in a pattern (attached to a project or not); its module column names an existing module with
        # three controllers, a module slot that is empty, or nothing -- the packing of the cell does not depend on that
        import rv.api as rv

        pat = rv.Pattern(tracks=1, lines=1)
        if where != "pattern":
            prj = rv.Project()
            prj.new_module(rv.m.Amplifier)
            prj.attach_pattern(pat)
        nt = pat.data[0][0]
        mod_col = {"pattern": 9, "attached-existing": 2, "attached-dangling": 9, "attached-none": 0}[where]
    for old in olds:
        for new in range(256):
            n += 1
            nt.note, nt.vel, nt.module, nt.ctl, nt.val = 5, 7, mod_col, 0x1234, 0x4321
            setattr(nt, word_attr, old)
            setattr(nt, sub, new)
            word = getattr(nt, word_attr)
            exp = ((new << 8) | (old & 0xFF)) if hi else ((old & 0xFF00) | new)
            if word != exp:
                if len(vs) < 4:
                    vs.append(C.viol("note-subfield-setter", {"sub": sub},
                                     {"old_word": old, "new": new, "word": word, "expected": exp,
                                      "read_back": getattr(nt, sub), "other": getattr(nt, other_sub)},
                                     {"note_word": [sub, old, new, where]}))
                continue
            other_word = nt.val if word_attr == "ctl" else nt.ctl
            if (int(nt.note), nt.vel, nt.module) != (5, 7, mod_col) or other_word != (0x4321 if word_attr == "ctl" else 0x1234):
                if len(vs) < 4:
                    vs.append(C.viol("note-subfield-setter-touches-other-field", {"sub": sub}, {"old": old, "new": new},
                                     {"note_word": [sub, old, new]}))
        # values wider than the 8-bit half: read back masked or clamped, the other half and the 16-bit width intact
        for new in (256, 0x1FF, 0x1234, 0xFFFF, -1):
            n += 1
            nt.note, nt.vel, nt.module, nt.ctl, nt.val = 5, 7, mod_col, 0x1234, 0x4321
            setattr(nt, word_attr, old)
            try:
                setattr(nt, sub, new)
            except Exception:
                continue                      # refusing an out-of-width value is also fine
            word = getattr(nt, word_attr)
            own = (word >> 8) & 0xFF if hi else word & 0xFF
            other = word & 0xFF if hi else (word >> 8) & 0xFF
            other_old = old & 0xFF if hi else (old >> 8) & 0xFF
            if not (0 <= word <= 0xFFFF) or other != other_old or own not in (new & 0xFF, max(0, min(new, 0xFF))):
                if len(vs) < 4:
                    vs.append(C.viol("note-subfield-wide-value-spills", {"sub": sub},
                                     {"old_word": old, "new": new, "word": word}, {"note_word": [sub, old, new]}))
    return n, vs


# ----------------------------------------------------------------------------- (c) visualization
def vis_words(task):
    from rv.modules.module import Visualization

    lm, orient, sizes = task
    vs = []
    n = 0
    for om in range(8):
        for size in sizes:
            for bg in range(4):
                for sh in range(4):
                    for reserved in (0, RESERVED_VIS):
                        old = lm | (orient << 5) | (om << 8) | (size << 16) | (bg << 24) | (sh << 26) | reserved
                        for f, (shift, mask, dom) in VIS.items():
                            for v in dom:
                                n += 1
                                w = Visualization(old)
                                setattr(w, f, v)
                                exp = (old & ~(mask << shift)) | (v << shift)
                                got = int(w)
                                if got != exp or int(getattr(w, f)) != v:
                                    if len(vs) < 4:
                                        vs.append(C.viol("visualization-subfield-setter", {"field": f, "reserved": bool(reserved)},
                                                         {"old": hex(old), "new": v, "word": hex(got & 0xFFFFFFFF), "expected": hex(exp)},
                                                         {"vis": [old, f, v]}))
                            if size not in (0, 12, 255):
                                continue
                            # values WIDER than the field: read back clamped or masked to the width, and every other
                            # sub-field (and the reserved bits) unchanged
                            for v in (mask + 1, (mask + 1) * 8, (mask + 1) * 8 + 1, 0xFFFF, -1):
                                n += 1
                                w = Visualization(old)
                                try:
                                    setattr(w, f, v)
                                except Exception as e:
                                    if len(vs) < 4:
                                        vs.append(C.viol("visualization-wide-value-raises", {"field": f, "exc": type(e).__name__},
                                                         {"old": hex(old), "new": v}, {"vis": [old, f, v]}))
                                    continue
                                got = int(w)
                                others = ~(mask << shift) & 0xFFFFFFFF
                                own = (got >> shift) & mask
                                ok_own = own in ((v & mask), max(0, min(v, mask)))
                                if (got & others) != (old & others) or not ok_own or got < 0 or got > 0xFFFFFFFF:
                                    if len(vs) < 4:
                                        vs.append(C.viol("visualization-wide-value-spills", {"field": f, "reserved": bool(reserved)},
                                                         {"old": hex(old), "new": v, "word": hex(got)}, {"vis": [old, f, v]}))
    return n, vs


def vis_module_roundtrip():
    """A word set through the module attribute survives save/load (SVPR) bit-exactly."""
    import rv.api as rv

    vs = []
    n = 0
    for word, before_save in itertools.product((0, 0x000C0101, 0x0FFF0724 & ~RESERVED_VIS, 0x0F120304, 0x08FF0021),
                                               ("", "module-cloned", "module-saved-as-synth", "project-saved")):
        n += 1
        p = rv.Project()
        m = p.new_module(rv.m.Amplifier)
        m.visualization = word
        # the module may have been cloned / written as a stand-alone synth (where the word is not stored) before
        if before_save == "module-cloned":
            m.clone()
        elif before_save == "module-saved-as-synth":
            rv.Synth(m).read()
        elif before_save == "project-saved":
            p.read()
        p2 = C.load_bytes(C.save(p))
        if int(p2.modules[1].visualization) != word:
            vs.append(C.viol("visualization-roundtrip", {}, {"word": hex(word), "loaded": hex(int(p2.modules[1].visualization))},
                             {"vis_rt": word}))
        d = codec.decode(C.save(p)).value["modules"][1]["visualization"]
        if d != word:
            vs.append(C.viol("visualization-file-word", {}, {"word": hex(word), "file": d}, {"vis_rt": word}))
    return n, vs


def vis_view_sequences():
    """TWO sub-fields set one after the other on the word object a module hands out (module in a project), every ordered
    pair of sub-fields: the object then holds both new values (whether or not it writes through to the module), and after
    `mod.visualization = int(word)` the module and the saved file hold them too."""
    import rv.api as rv

    vs, n = [], 0
    old = 0x000C0101
    picks = {f: [v for v in dom if v != ((old >> shift) & mask)][:2] for f, (shift, mask, dom) in VIS.items()}
    for f1, f2 in itertools.permutations(VIS, 2):
        for v1 in picks[f1][:1]:
            for v2 in picks[f2]:
                n += 1
                p = rv.Project()
                m = p.new_module(rv.m.Amplifier)
                m.visualization = old
                w = m.visualization
                setattr(w, f1, v1)
                setattr(w, f2, v2)
                exp = old
                for f, v in ((f1, v1), (f2, v2)):
                    shift, mask, _dom = VIS[f]
                    exp = (exp & ~(mask << shift)) | (v << shift)
                case = {"vis_seq": [f1, v1, f2, v2]}
                if int(w) != exp:
                    vs.append(C.viol("visualization-subfield-setter", {"field": f2, "after": f1, "on": "word handed out by a module"},
                                     {"word": hex(int(w)), "expected": hex(exp)}, case))
                    continue
                m.visualization = int(w)
                l = C.load_bytes(C.save(p)).modules[1]
                if int(m.visualization) != exp or int(l.visualization) != exp:
                    vs.append(C.viol("visualization-roundtrip", {"after": "two sub-field edits"},
                                     {"module": hex(int(m.visualization)), "loaded": hex(int(l.visualization)), "expected": hex(exp)}, case))
    return n, vs[:6]


def mod_then_module():
    """A cell whose module was chosen through `note.mod = <module>` and then re-chosen by NUMBER (`note.module = n`): the
    number is what the cell holds and what its byte image encodes -- and the other way round."""
    import rv.api as rv
    from struct import unpack

    vs, n = [], 0
    for first in ("mod", "module"):
        for num in (0, 1, 3, 7, 0x1234):
            n += 1
            p = rv.Project()
            a = p.new_module(rv.m.Amplifier)
            b = p.new_module(rv.m.Generator)
            pat = rv.Pattern(tracks=1, lines=1)
            p.attach_pattern(pat)
            nt = pat.data[0][0]
            nt.note, nt.vel, nt.ctl, nt.val = rv.NOTECMD(5), 7, 0x1234, 0x4321
            if first == "mod":
                nt.mod = a
                nt.module = num
                want = num
            else:
                nt.module = num
                nt.mod = b
                want = b.index + 1
            got_field = unpack("<BBHHH", nt.raw_data)[2]
            if nt.module != want or got_field != want or pat.raw_data[2:4] != want.to_bytes(2, "little"):
                vs.append(C.viol("note-module-column", {"order": first + "-first"},
                                 {"expected": want, "attribute": nt.module, "encoded": got_field}, {"mod_then_module": [first, num]}))
    return n, vs[:4]


# ----------------------------------------------------------------------------- (c) SMII / SFGS
def midi_in_all():
    import rv.api as rv

    vs = []
    n = 0
    for a0, c0 in itertools.product((False, True), range(32)):
        for which, newv in [("always", a) for a in (False, True)] + [("channel", c) for c in (0, 1, 15, 16, 31)] + [(None, None)]:
            n += 1
            p = rv.Project()
            m = p.new_module(rv.m.Amplifier)
            m.midi_in_always, m.midi_in_channel = a0, c0
            ea, ec = a0, c0
            if which == "always":
                m.midi_in_always = ea = newv
            elif which == "channel":
                m.midi_in_channel = ec = newv
            b = C.save(p)
            l = C.load_bytes(b).modules[1]
            dm = codec.decode(b).value["modules"][1]
            if (bool(l.midi_in_always), l.midi_in_channel) != (ea, ec) or (dm["midi_in_always"], dm["midi_in_channel"]) != (ea, ec):
                if len(vs) < 4:
                    vs.append(C.viol("midi-in-packing", {"set": which},
                                     {"old": [a0, c0], "new": newv, "loaded": [l.midi_in_always, l.midi_in_channel],
                                      "file": [dm["midi_in_always"], dm["midi_in_channel"]]},
                                     {"smii": [a0, c0, which, newv]}))
    return n, vs


def sync_all():
    import rv.api as rv

    vs = []
    n = 0
    # ... in files stamped with the current version and with versions on either side of 1.9.5.0 (old files get fix-ups when
    # they are read; the two sub-fields are not among the things that differ)
    for ver, a0, b0 in itertools.product((None, (1, 9, 4, 2), (1, 9, 5, 0)), range(8), range(8)):
        for which, newv in [("midi", v) for v in range(8)] + [("other", v) for v in range(8)]:
            n += 1
            p = rv.Project()
            if ver:
                p.sunvox_version = ver
            p.receive_sync_midi, p.receive_sync_other = a0, b0
            ea, eb = a0, b0
            if which == "midi":
                p.receive_sync_midi = ea = newv
            else:
                p.receive_sync_other = eb = newv
            b = C.save(p)
            l = C.load_bytes(b)
            d = codec.decode(b).value
            if (int(l.receive_sync_midi), int(l.receive_sync_other)) != (ea, eb) or \
                    (d["receive_sync_midi"], d["receive_sync_other"]) != (ea, eb):
                if len(vs) < 4:
                    vs.append(C.viol("sync-flags-packing", {"set": which, "version": "current" if not ver else ".".join(map(str, ver))},
                                     {"old": [a0, b0], "new": newv,
                                      "loaded": [int(l.receive_sync_midi), int(l.receive_sync_other)],
                                      "file": [d["receive_sync_midi"], d["receive_sync_other"]]},
                                     {"sfgs": [a0, b0, which, newv]}))
    return n, vs


# ----------------------------------------------------------------------------- driver
def run_case(case):
    if "cell" in case:
        from rv.note import Note

        raw = pack("<BBHHH", *case["cell"])
        nt = Note()
        nt.raw_data = raw
        return [] if nt.raw_data == raw else [C.viol("note-codec", {"part": "replay"}, {}, case)]
    if "shape" in case:
        return pattern_shape(*case["shape"])[1]
    if "note_word" in case:
        sub, old, _new = case["note_word"][:3]
        return note_words((sub, [old]) + tuple(case["note_word"][3:4]))[1]
    if "vis" in case:
        old, f, v = case["vis"]
        lm, orient, size = old & 0x1F, (old >> 5) & 1, (old >> 16) & 0xFF
        return [x for x in vis_words((lm, orient, [size]))[1]]
    if "vis_seq" in case:
        return [v for v in vis_view_sequences()[1] if v["case"] == case]
    if "mod_then_module" in case:
        return [v for v in mod_then_module()[1] if v["case"] == case]
    if "vis_rt" in case:
        return vis_module_roundtrip()[1]
    if "smii" in case:
        return midi_in_all()[1]
    if "sfgs" in case:
        return sync_all()[1]
    return []


def _task(t):
    r = C.new_result()
    kind = t[0]
    if kind == "notes":
        n, vs = notes_sweep(t[1])
        r["sample"] = {"notes": t[1]}
    elif kind == "shape":
        n, vs = pattern_shape(t[1], t[2])
        r["sample"] = {"shape": [t[1], t[2]]}
    elif kind == "words":
        n, vs = note_words(tuple(t[1:]))
        r["sample"] = {"note_word": [t[1], t[2][0], 255]}
    elif kind == "vis":
        n, vs = vis_words(t[1])
        r["sample"] = {"vis_old_low_bits": t[1][:2]}
    elif kind == "misc":
        n, vs = 0, []
        for fn in (vis_module_roundtrip, vis_view_sequences, mod_then_module, midi_in_all, sync_all):
            k, v = fn()
            n += k
            vs += v
    r["evals"] = n
    r["violations"] = vs
    C.count(r, kind, n)
    return r


def run(ctx):
    treeenv.setup()
    tasks = [("notes", p) for p in ("cmd-vel", "module", "ctl", "val")]
    shapes = [(t, l) for t in range(1, 5) for l in range(1, 5)] + [(4, 32), (32, 1), (3, 64), (1, 32)]
    if ctx.thorough:
        shapes += [(t, l) for t in (5, 8, 16, 32) for l in (5, 8, 33)]
    tasks += [("shape", t, l) for t, l in shapes]
    if ctx.thorough:
        for sub in SUBS:
            for lo in range(0, 65536, 2048):
                tasks.append(("words", sub, list(range(lo, lo + 2048))))
        size_sets = [list(range(s, s + 32)) for s in range(0, 256, 32)]
    else:
        olds = sorted({(h << 8) | l for h in range(256) for l in (0, 0xA5, 0xFF)} |
                      {(h << 8) | l for l in range(256) for h in (0, 0xA5, 0xFF)})
        for sub in SUBS:
            for i in range(0, len(olds), 256):
                tasks.append(("words", sub, olds[i:i + 256]))
        size_sets = [[0, 1, 0x80, 0xFF]]
    for sub in SUBS:
        for where in ("pattern", "attached-existing", "attached-dangling", "attached-none"):
            tasks.append(("words", sub, [0x1234, 0x00FF, 0xFF00], where))
    for lm in range(5):
        for orient in (0, 1):
            for ss in size_sets:
                tasks.append(("vis", (lm, orient, ss)))
    tasks.append(("misc",))
    from rvmc.runner import rotate

    agg = C.Agg()
    for r in ctx.pmap(_task, rotate(tasks, ctx.seed)):
        agg.merge(r)
    ctx.add(agg.violations)
    return {
        "evaluations": agg.evals,
        "distinct_nontrivial": agg.evals - 1,
        "rule": "complete enumerations listed in the module docstring; every evaluation is a distinct (old word, "
                "sub-field, new value) triple / cell / shape, so distinct_nontrivial = evaluations - 1 (the all-zero cell)",
        "exhaustive": True,
        "by_part": agg.counters,
        "note_word_old_values": "all 65536" if ctx.thorough else "high byte x {0,0xA5,0xFF} low byte and low byte x {0,0xA5,0xFF} high byte",
        "samples": agg.samples,
    }
