"""C05 — re-saving is stable: load/save is idempotent and saving is pure.

E-BFS on the "open/save" machine: a state is a byte string, the one transition is
Y = save(load(X)).  Initial states: all fixtures; files written by rv for every module type x
every single deviation; every fixture with EACH stored controller value replaced by each of
{-1, 0, 300, 70000, 2^31-1}, EACH options byte by {0x00, 0x01, 0xFF}, EACH link / slot entry by
{-1, 0, another index}, EACH note's velocity byte by {0, 129} — also inside embedded MetaModule
projects and sampler effects.  Oracle: the chain X -> Y1 -> Y2 -> Y3 is constant from Y1 on;
write_to does not change the object's snapshot; two consecutive write_to give equal bytes.
Mutants the library cannot load are outside the quantifier (counted, not failed).
"""
import os
from struct import pack, unpack

from checks import common as C
from rvmc import deviate, snapshot as S, treeenv
from rvref import codec

PROPERTY = "C05"
LEVEL = "model_checking"
ASSUMPTIONS = [
    "a deterministic function of the bytes can only start drifting at the first cycle (Y2 != Y1), so 3 cycles (5 thorough) decide any n",
    "mutants that cannot be loaded, or whose first save raises, are outside 'for any loadable file X ... let Y be the bytes obtained' and are only counted",
]

CVAL_VALUES = [-1, 0, 300, 70000, 2**31 - 1, -129, -300, -70000, -2**31]


# ----------------------------------------------------------------------------- mutants
def container_mutants(data, prefix=""):
    """Yields (label, mutated bytes) for one container and, recursively, its embedded ones."""
    chunks = codec.parse_chunks(data)
    for i, (cid, d) in enumerate(chunks):
        if cid == b"CVAL" and len(d) == 4:
            (cur,) = unpack("<i", d)
            for v in CVAL_VALUES + [cur + 129]:
                if v != cur:
                    yield f"{prefix}CVAL@{i}={v}", _subst(chunks, i, pack("<i", v))
        elif cid == b"CMID" and i > 0 and chunks[i - 1][0] == b"CVAL":
            # a file from a NEWER program: more stored controller values than this library knows for the type (two and
            # three surplus values, not palindromic), with matching unset MIDI-map records
            for extra in ([1, 2], [7], [3, 1, 2]):
                new = list(chunks[:i]) + [(b"CVAL", pack("<i", v)) for v in extra] + \
                    [(b"CMID", d + (b"\0" * 7 + b"\xff") * len(extra))] + list(chunks[i + 1:])
                yield f"{prefix}extraCVAL@{i}x{len(extra)}", codec.build_chunks(new)
        elif cid in (b"SLNK", b"SLnK") and d:
            n = len(d) // 4
            vals = list(unpack("<" + "i" * n, d))
            for k in range(n):
                for v in (-1, 0, 1, -2):        # -2: an entry that is neither a module number nor the "free" marker
                    if v != vals[k]:
                        nv = list(vals)
                        nv[k] = v
                        yield f"{prefix}{cid.decode()}@{i}[{k}]={v}", _subst(chunks, i, pack("<" + "i" * n, *nv))
        elif cid == b"PDTA":
            for off in range(1, len(d), 8):
                for v in (0, 129):
                    if d[off] != v:
                        nd = bytearray(d)
                        nd[off] = v
                        yield f"{prefix}PDTA@{i}+{off}={v}", _subst(chunks, i, bytes(nd))
        elif cid == b"CHDT" and d[:4] in (b"SVOX", b"SSYN"):
            for label, nd in container_mutants(d, prefix + f"nested@{i}/"):
                yield label, _subst(chunks, i, nd)
    # options bytes: CHDT that follows the CHNM equal to the type's options chunk number
    from rvmc import spec

    by_type = {t.type: t for t in spec.types().values()}
    cur_type = None
    cur_chnm = None
    for i, (cid, d) in enumerate(chunks):
        if cid == b"STYP":
            cur_type = by_type.get(d.split(b"\0")[0].decode("utf8", "replace"))
        elif cid == b"SEND":
            cur_type = None
        elif cid == b"CHNM" and len(d) == 4:
            (cur_chnm,) = unpack("<I", d)
        elif cid == b"CHDT" and cur_type is not None and cur_type.options and cur_chnm == cur_type.options_chnm:
            for k in range(len(d)):
                for v in (0x00, 0x01, 0xFF):
                    if d[k] != v:
                        nd = bytearray(d)
                        nd[k] = v
                        yield f"{prefix}OPT@{i}[{k}]={v:#x}", _subst(chunks, i, bytes(nd))


def ranged_cval_positions(data):
    """Chunk indices (top level) of CVAL chunks that belong to a RANGED controller of a specified module type."""
    from rvmc import spec

    by_type = {t.type: t for t in spec.types().values()}
    out = set()
    cur, k = None, 0
    for i, (cid, d) in enumerate(codec.parse_chunks(data)):
        if cid == b"SFFF":
            cur, k = None, 0
        elif cid == b"STYP":
            cur = by_type.get(d.split(b"\0")[0].decode("utf8", "replace"))
        elif cid == b"CVAL":
            if cur is not None and k < len(cur.controllers) and cur.controllers[k].kind in ("range", "compact", "no_offset", "dependent"):
                out.add(i)
            k += 1
    return out


def _is_ranged_cval_mutant(data, label):
    import re

    m = re.match(r"^CVAL@(\d+)=", label or "")
    return bool(m) and int(m.group(1)) in ranged_cval_positions(data)


def _subst(chunks, i, payload):
    new = list(chunks)
    new[i] = (chunks[i][0], payload)
    return codec.build_chunks(new)


# ----------------------------------------------------------------------------- reference-encoded nested files
def reference_nested_files(max_depth):
    """Files with MetaModules nested to `depth`, written by the INDEPENDENT encoder (a file written by the
    library under test could already be wrong-but-stable, which would hide a re-save defect)."""
    from rvref import absdev

    out = []
    for inner_type, devs, ctl_index in (("Amplifier", [{"k": "ctl", "n": "balance", "v": -100}], 1),
                                        ("MultiSynth", [{"k": "ctl", "n": "transpose", "v": 5}], 0),
                                        ("Generator", [], 0)):
        proj = absdev.make_project(name="leaf", modules=[absdev.make_output(), absdev.build_module(inner_type, devs)])
        for depth in range(1, max_depth + 1):
            for ctx in ("project", "synth"):
                mm = absdev.build_module("MetaModule", [], in_project=(ctx == "project"))
                mm["payload"]["project"] = proj
                mm["options"]["user_defined_controllers"] = 2
                mm["payload"]["mappings"][0] = [1, ctl_index]
                mm["controllers"] = mm["controllers"][:5] + [["user_defined_1", 20], ["user_defined_2", 0]]
                mm["cmid"] = [[0, 0, 0, 0] for _ in mm["controllers"]]
                mm["cvals_raw"] = None
                mm["payload"]["labels"] = {0: f"d{depth}"}
                mm = absdev.finish_module(mm)
                if ctx == "synth":
                    out.append((f"ref-nested:{inner_type}:depth{depth}:synth", codec.encode(absdev.make_synth(mm))))
                else:
                    amp = absdev.build_module("Amplifier", [])
                    amp["in_links"], amp["in_link_slots"] = [1], [0]
                    outm = absdev.make_output()
                    outm["in_links"], outm["in_link_slots"] = [2], [0]
                    nxt = absdev.make_project(name=f"level{depth}", modules=[outm, mm, amp])
                    out.append((f"ref-nested:{inner_type}:depth{depth}:project", codec.encode(nxt)))
                    keep = nxt
            proj = keep
    return out


# ----------------------------------------------------------------------------- oracle
def chain(x, cycles, key):
    """Returns (status, violations, digest)."""
    vs = []
    try:
        o = C.load_bytes(x)
    except Exception as e:
        from rv.errors import ControllerValueError

        if isinstance(e, ControllerValueError):
            # files whose stored values are outside the known ranges ARE in the quantifier: loading tolerates them;
            # this error can only be raised in strict mode, so part of the load ran strict
            return "unloadable", [C.viol("out-of-range-value-not-tolerated-on-load", dict(key), {"error": repr(e)[:200]})], None
        return "unloadable", vs, None
    try:
        s_before = S.snapshot(o)
        raw_before = raw_lists(o)
        y1 = C.save(o)
    except Exception as e:
        # "for any loadable file X, let Y be the bytes obtained by loading X and saving it": Y must exist
        return "unsavable", [C.viol("loaded-file-cannot-be-saved", dict(key, exc=type(e).__name__), {"error": repr(e)[:200]})], None
    s_after = S.snapshot(o)
    d = S.diff(s_before, s_after)
    if not d and raw_lists(o) != raw_before:
        # the public list objects themselves (also trailing freed link slots, empty sample slots, ...)
        vs.append(C.viol("save-not-pure", dict(key, path="raw-lists"), {"before": raw_before, "after": raw_lists(o)}))
    if d:
        vs.append(C.viol("save-not-pure", dict(key, path=C.first_diff_key(d)), {"diff": S.diff_text(d)}))
    if C.save(o) != y1:
        vs.append(C.viol("save-twice-differs", key, {}))
    prev = y1
    for n in range(2, cycles + 1):
        try:
            o2 = C.load_bytes(prev)
            y = C.save(o2)
        except Exception as e:
            vs.append(C.viol("resaved-file-not-loadable", dict(key, exc=type(e).__name__), {"cycle": n, "error": repr(e)}))
            break
        if y != prev:
            vs.append(C.viol("drift", dict(key, where=first_difference(prev, y)), {"cycle": n, "lens": [len(prev), len(y)],
                                                                                      "what": describe_difference(prev, y)}))
            break
        prev = y
    if not vs:
        vs += edited_purity(x, o, key)
    return "ok", vs, C.h8(y1)


def edited_purity(x, o, key):
    """Saving does not change the object's observable state ALSO when the loaded object has been edited before the save:
    for every MetaModule of the file the number of exposed controllers is lowered / raised by one on a fresh load, then the
    object is saved (stand-alone synth of the module, and the whole object): state before == state after, two saves equal."""
    import rv.api as rv
    from rv.project import Project

    def metas(obj):
        if isinstance(obj, Project):
            return [i for i, m_ in enumerate(obj.modules) if m_ is not None and m_.mtype == "MetaModule"]
        return [None] if getattr(obj.module, "mtype", None) == "MetaModule" else []

    vs = []
    for mi in metas(o)[:2]:
        for delta in (-1, +1):
            try:
                o2 = C.load_bytes(x)
                mm = o2.modules[mi] if mi is not None else o2.module
                n = mm.user_defined_controllers
                if not (0 <= n + delta <= 96):
                    continue
                mm.user_defined_controllers = n + delta
                s0 = S.snapshot(o2)
                for how in ("module-as-synth", "whole-object"):
                    y = C.save(rv.Synth(mm)) if how == "module-as-synth" else C.save(o2)
                    d = S.diff(s0, S.snapshot(o2))
                    if d:
                        vs.append(C.viol("save-not-pure", dict(key, path=C.first_diff_key(d), after_edit="count" + ("-1" if delta < 0 else "+1"), saved=how),
                                         {"diff": S.diff_text(d)}))
                        break
                    y2 = C.save(rv.Synth(mm)) if how == "module-as-synth" else C.save(o2)
                    if y2 != y:
                        vs.append(C.viol("save-twice-differs", dict(key, after_edit="count" + ("-1" if delta < 0 else "+1"), saved=how), {}))
                        break
            except Exception:
                continue
    return vs[:2]


def built_purity(p, key):
    vs = []
    s0, r0 = S.snapshot(p), raw_lists(p)
    y = C.save(p)
    if S.diff(s0, S.snapshot(p)) or raw_lists(p) != r0:
        vs.append(C.viol("save-not-pure", dict(key, path="raw-lists" if raw_lists(p) != r0 else "snapshot"),
                         {"before": r0, "after": raw_lists(p)}))
    if C.save(p) != y:
        vs.append(C.viol("save-twice-differs", key, {}))
    return vs


def raw_lists(o):
    """Public list-valued attributes exactly as they are (the snapshot normalises trailing freed slots away)."""
    mods = getattr(o, "modules", None)
    if mods is None:
        mods = [o.module]
    out = [len(mods), len(getattr(o, "patterns", []))]
    for m in mods:
        if m is None:
            out.append(None)
            continue
        out.append([list(m.in_links), list(m.in_link_slots), list(m.out_links), list(m.out_link_slots),
                    len(getattr(m, "samples", [])), len(getattr(getattr(m, "mappings", None), "values", []) or [])])
    return out


def first_difference(a, b):
    """Chunk id (and nesting) in which two byte strings first differ."""
    try:
        ca, cb = codec.parse_chunks(a), codec.parse_chunks(b)
    except Exception:
        return "unparsable"
    for (ia, da), (ib, db) in zip(ca, cb):
        if ia != ib:
            return f"{ia.decode('latin1')}/{ib.decode('latin1')}"
        if da != db:
            if da[:4] in (b"SVOX", b"SSYN") and db[:4] == da[:4]:
                return ia.decode("latin1") + ">" + first_difference(da, db)
            return ia.decode("latin1")
    return "length"


def describe_difference(a, b):
    try:
        ca, cb = codec.parse_chunks(a), codec.parse_chunks(b)
    except Exception:
        return "unparsable"
    for k, ((ia, da), (ib, db)) in enumerate(zip(ca, cb)):
        if ia != ib or da != db:
            if ia == ib and da[:4] in (b"SVOX", b"SSYN"):
                return f"chunk {k} {ia.decode('latin1')} nested: " + describe_difference(da, db)
            return f"chunk {k}: {ia.decode('latin1')} {da[:16].hex()} -> {ib.decode('latin1')} {db[:16].hex()}"
    return f"chunk counts {len(ca)} vs {len(cb)}"


def run_case(case):
    cycles = case.get("cycles", 3)
    if "emptyslots" in case:
        import rv.api as rv

        layout, pats = case["emptyslots"]
        p = rv.Project()
        for x in layout:
            p.attach_module(rv.m.Amplifier() if x else None)
        for x in pats:
            p.attach_pattern(rv.Pattern(tracks=1, lines=1) if x else None)
        _st, vs, _h = chain(C.save(p), cycles, {"file": "empty-slots", "layout": "".join(map(str, layout)) + "/" + "".join(map(str, pats))})
        for v in vs:
            v["case"] = case
        return vs
    if "built_history" in case:
        from checks import c07

        sysm = c07.LinkSystem(case["built_history"])
        L = sysm.fresh()
        for op in case["built_history"]:
            sysm.apply(L, op)
        vs = built_purity(L.p, {"built": "links"})
        for v in vs:
            v["case"] = case
        return vs
    if "legacy" in case:
        from checks import c16

        out = []
        for rep in range(2):
            _st, vs, _h = chain(c16.legacy_variants()[case["legacy"]], cycles, {"file": "sampler.sunsynth", "legacy": case["legacy"]})
            out += vs
        for v in out:
            v["case"] = case
        return out
    if "refnested" in case:
        data = dict(reference_nested_files(case["max_depth"]))[case["refnested"]]
        label = case["refnested"]
        _st, vs, _h = chain(data, cycles, {"file": label.rsplit(":", 2)[0], "depth": label.split(":")[2]})
        for v in vs:
            v["case"] = case
        return vs
    if "objects" in case:
        from checks import c15, c16

        mod = c15 if case["objects"] == "c15" else c16
        data = C.save(mod.build_object(dict(case["case"], ctx=case["ctx"])))
        _st, vs, _h = chain(data, cycles, {"objects": case["objects"], "what": case["case"]["label"], "ctx": case["ctx"]})
        for v in vs:
            v["case"] = case
        return vs
    if "history" in case and "built_history" not in case:
        from checks import c07

        sysm = _ref_link_system()(case["history"], case.get("holes", (0, 0, 0)))
        L = sysm.fresh()
        for op in case["history"]:
            sysm.apply(L, op)
        vs = sysm.state_check(L)
        for v in vs:
            v["case"] = case
        return vs
    if "c01case" in case:
        from checks import c01

        _st, vs, _h = chain(C.save(c01.build_case(case["c01case"])), cycles, dict(c01.case_key(case["c01case"]), built="c01"))
        for v in vs:
            v["case"] = case
        return vs
    if "fixture" in case:
        data = open(os.path.join(treeenv.FIXTURES, case["fixture"]), "rb").read()
        key = {"file": case["fixture"]}
        if case.get("mutant"):
            data = dict(container_mutants(data))[case["mutant"]]
            key["mutant"] = mutant_class(case["mutant"])
        _st, vs, _h = chain(data, cycles, key)
        if _st == "unloadable" and not vs and _is_ranged_cval_mutant(open(os.path.join(treeenv.FIXTURES, case["fixture"]), "rb").read(), case.get("mutant")):
            vs = [C.viol("out-of-range-value-not-tolerated-on-load", dict(key), {"mutant": case["mutant"]})]
    else:
        import rv.api as rv

        mod = deviate.build(case["type"], case["devs"])
        if case.get("ctx") == "project":
            p = rv.Project()
            p.attach_module(mod)
            data = C.save(p)
        else:
            data = C.save(rv.Synth(mod))
        _st, vs, _h = chain(data, cycles, {"type": case["type"], "ctx": case.get("ctx", "synth")})
    for v in vs:
        v["case"] = case
    return vs


def mutant_class(label):
    import re

    label = re.sub(r"@\d+", "", label)
    label = re.sub(r"\[\d+\]", "[]", label)
    label = re.sub(r"\+\d+", "", label)
    return label


def _task(t):
    r = C.new_result()
    kind = t[0]
    if kind == "fixture":
        _k, rel, cycles, lo, hi = t
        data = open(os.path.join(treeenv.FIXTURES, rel), "rb").read()
        items = [(None, data)] if lo == 0 else []
        muts = list(container_mutants(data))
        items += muts[max(0, lo - 1) if lo else 0:hi - 1 if hi else None] if hi else muts
        for label, x in items:
            key = {"file": rel} if label is None else {"file": rel, "mutant": mutant_class(label)}
            st, vs, h = chain(x, cycles, key)
            if st == "unloadable" and not vs and _is_ranged_cval_mutant(data, label):
                # the fixture itself loads; only one stored controller value was changed: "files whose stored values are
                # outside the known ranges" are in the quantifier, so this file must load too (whatever the error class)
                vs = [C.viol("out-of-range-value-not-tolerated-on-load", dict(key), {"mutant": label})]
            for v in vs:
                v["case"] = {"fixture": rel, "mutant": label, "cycles": cycles}
            r["evals"] += 1
            C.count(r, st.split(":")[0])
            if h:
                r["digests"].add(h)
            if len(r["violations"]) < 40:
                r["violations"] += vs
        r["sample"] = {"fixture": rel, "mutant": items[-1][0] if items else None}
    elif kind == "c01cases":
        # project-level initial states: every C01 case (header fields, names, patterns, and their k=2 combinations)
        from checks import c01

        _k, cycles, cases = t
        for case in cases:
            try:
                data = C.save(c01.build_case(case))
            except Exception as e:
                C.count(r, "not-built")
                if len(r["violations"]) < 20:
                    r["violations"].append(C.viol("in-domain-object-cannot-be-built-or-saved", {"exc": type(e).__name__},
                                                  {"error": repr(e)[:200]}, None))
                continue
            st, vs, h = chain(data, cycles, dict(c01.case_key(case), built="c01"))
            for v in vs:
                v["case"] = {"c01case": case, "cycles": cycles}
            r["evals"] += 1
            C.count(r, st.split(":")[0])
            if h:
                r["digests"].add(h)
            if len(r["violations"]) < 20:
                r["violations"] += vs
        r["sample"] = {"c01case": cases[-1]} if cases else None
    elif kind == "refnested":
        _k, cycles, max_depth = t
        for label, data in reference_nested_files(max_depth):
            st, vs, h = chain(data, cycles, {"file": label.rsplit(":", 2)[0], "depth": label.split(":")[2]})
            for v in vs:
                v["case"] = {"refnested": label, "max_depth": max_depth, "cycles": cycles}
            r["evals"] += 1
            C.count(r, st.split(":")[0])
            C.count(r, "refnested-" + st.split(":")[0])
            if h:
                r["digests"].add(h)
            r["violations"] += vs
        r["sample"] = {"refnested": "ref-nested:Amplifier:depth2:project"}
    elif kind == "built":
        # purity of saving on objects BUILT through the API (loaded objects never carry trailing freed slots)
        import itertools

        from checks import c07

        ops = [o for o in c07.alphabet_A1([0, 1, 2]) if o["op"] != "save"]
        _k, depth, lo, hi = t
        sysm = c07.LinkSystem(ops)
        for first in ops[lo:hi]:
            for d in range(depth):
                for rest in itertools.product(ops, repeat=d):
                    hist = [first] + list(rest)
                    L = sysm.fresh()
                    for op in hist:
                        sysm.apply(L, op)
                    vs = built_purity(L.p, {"built": "links"})
                    for v in vs:
                        v["case"] = {"built_history": hist}
                    r["evals"] += 1
                    C.count(r, "built")
                    if len(r["violations"]) < 10:
                        r["violations"] += vs
        r["sample"] = {"built_history": [ops[lo], ops[-1]]}
    elif kind == "emptyslots":
        # projects whose module / pattern tables contain empty positions, also SEVERAL at the end
        import rv.api as rv

        for layout in ([1, 0], [1, 0, 0], [1, 0, 0, 0], [0, 1], [0, 0, 1, 0, 0], [0, 0], [1, 0, 1, 0, 0, 0]):
            for pats in ([], [0, 0], [1, 0, 0]):
                p = rv.Project()
                for x in layout:
                    p.attach_module(rv.m.Amplifier() if x else None) if x else p.attach_module(None)
                for x in pats:
                    p.attach_pattern(rv.Pattern(tracks=1, lines=1) if x else None)
                data = C.save(p)
                st, vs, h = chain(data, t[1], {"file": "empty-slots", "layout": "".join(map(str, layout)) + "/" + "".join(map(str, pats))})
                for v in vs:
                    v["case"] = {"emptyslots": [layout, pats], "cycles": t[1]}
                r["evals"] += 1
                C.count(r, st.split(":")[0])
                if h:
                    r["digests"].add(h)
                r["violations"] += vs
        r["sample"] = {"emptyslots": [[1, 0, 0], []]}
    elif kind == "legacy":
        from checks import c16

        for name, data in c16.legacy_variants().items():
            for rep in range(2):      # twice in the same process: state left behind by the first chain must not matter
                st, vs, h = chain(data, t[1], {"file": "sampler.sunsynth", "legacy": name})
                for v in vs:
                    v["case"] = {"legacy": name, "cycles": t[1]}
                r["evals"] += 1
                C.count(r, st.split(":")[0])
                if h:
                    r["digests"].add(h)
                r["violations"] += vs
        r["sample"] = {"legacy": "signature-altered"}
    elif kind == "objects":
        _k, which, cycles, lo, hi = t
        from checks import c15, c16

        mod = c15 if which == "c15" else c16

        class _Ctx:
            thorough = False
            seed = 0
        for case in mod.object_cases(_Ctx)[lo:hi]:
            for cx in ("synth", "project"):
                try:
                    data = C.save(mod.build_object(dict(case, ctx=cx)))
                except Exception as e:
                    C.count(r, "not-built")
                    if len(r["violations"]) < 20:
                        r["violations"].append(C.viol("in-domain-object-cannot-be-built-or-saved", {"exc": type(e).__name__},
                                                      {"error": repr(e)[:200]}, None))
                    continue
                st, vs, h = chain(data, cycles, {"objects": which, "what": case["label"], "ctx": cx})
                for v in vs:
                    v["case"] = {"objects": which, "case": case, "ctx": cx, "cycles": cycles}
                r["evals"] += 1
                C.count(r, st.split(":")[0])
                if h:
                    r["digests"].add(h)
                if len(r["violations"]) < 20:
                    r["violations"] += vs
        r["sample"] = {"objects": which, "index": lo}
    else:
        _k, tkey, seed, ctxs, cycles, lo, hi = t
        import rv.api as rv

        devs = deviate.module_devs(tkey, seed, spikes="few", opt8="few")
        combos = ([[]] + [[d] for d in devs])[lo:hi]
        for c in combos:
            try:
                mod = deviate.build(tkey, c)
            except Exception as e:
                C.count(r, "deviation-rejected")
                if len(r["violations"]) < 20:
                    r["violations"].append(C.viol("in-domain-object-cannot-be-built-or-saved", {"type": tkey, "exc": type(e).__name__},
                                                  {"error": repr(e)[:200], "devs": c}, None))
                continue
            for cx in ctxs:
                if cx == "project":
                    p = rv.Project()
                    p.attach_module(mod)
                    data = C.save(p)
                else:
                    data = C.save(rv.Synth(mod))
                st, vs, h = chain(data, cycles, {"type": tkey, "ctx": cx})
                for v in vs:
                    v["case"] = {"type": tkey, "devs": c, "ctx": cx, "cycles": cycles}
                r["evals"] += 1
                C.count(r, st.split(":")[0])
                if h:
                    r["digests"].add(h)
                if len(r["violations"]) < 20:
                    r["violations"] += vs
        r["sample"] = {"type": tkey, "devs": combos[-1] if combos else []}
    return r


def _strip(l):
    l = list(l)
    while l and l[-1] == -1:
        l.pop()
    return l


def _ref_link_system():
    from checks import c07

    class RefLinkSystem(c07.LinkSystem):
        """Every link state of the C07 driver, written by the INDEPENDENT encoder from the live tables (explicit slot
        chunk on every linked module, and the library's own elision rule), as initial file X of the open/save machine."""

        def state_check(self, L):
            from rvref import codec as rc

            dec = rc.decode(C.save(L.p)).value
            for i, m in enumerate(L.p.modules):
                if m is not None and i < len(dec["modules"]) and dec["modules"][i] is not None:
                    dec["modules"][i]["in_links"] = _strip(m.in_links)
                    dec["modules"][i]["in_link_slots"] = _strip(m.in_link_slots)[:len(_strip(m.in_links))]
            out = []
            for name, layout in (("slot-chunk-always", {"slot_chunk": "always"}), ("canonical", None)):
                try:
                    x = rc.encode(dec, layout)
                except Exception:
                    continue
                _st, vs, _h = chain(x, 3, {"file": "reference-encoded-link-state", "layout": name})
                out += vs
            return out[:3]

    return RefLinkSystem


def run_ref_links(ctx):
    from checks import c07
    from rvmc import explorer
    from rvmc.runner import rotate

    A1 = [o for o in c07.alphabet_A1() if o["op"] != "save"]
    sysm = _ref_link_system()(A1)
    return explorer.bfs(ctx, sysm, 5 if ctx.thorough else 4, op_indices=rotate(range(len(A1)), ctx.seed), chunk=128, verify_chunk=64)


def run(ctx):
    treeenv.setup()
    cycles = 5 if ctx.thorough else 3
    tasks = []
    nmut = 0
    for f in treeenv.fixture_files():
        rel = os.path.relpath(f, treeenv.FIXTURES)
        data = open(f, "rb").read()
        n = sum(1 for _ in container_mutants(data)) + 1
        nmut += n
        step = 150
        for lo in range(0, n, step):
            tasks.append(("fixture", rel, cycles, lo, min(n, lo + step)))
    for k in deviate.type_keys():
        n = len(deviate.module_devs(k, ctx.seed, spikes="few", opt8="few")) + 1
        for lo in range(0, n, 60):
            tasks.append(("gen", k, ctx.seed, ("synth", "project") if ctx.thorough else ("synth",), cycles, lo, min(n, lo + 60)))
    from checks import c01

    c01cases = [c for c in c01.all_cases(ctx) if c["kind"] != "metamodules"]
    for lo in range(0, len(c01cases), 200):
        tasks.append(("c01cases", cycles, c01cases[lo:lo + 200]))
    tasks.append(("refnested", cycles, 5 if ctx.thorough else 3))
    tasks.append(("legacy", cycles))
    tasks.append(("emptyslots", cycles))
    for lo in range(0, 27, 2):
        tasks.append(("built", 4 if ctx.thorough else 3, lo, lo + 2))
    from checks import c15, c16

    class _Q:
        thorough = False
        seed = 0
    for which, mod in (("c15", c15), ("c16", c16)):
        n = len(mod.object_cases(_Q))
        for lo in range(0, n, 40):
            tasks.append(("objects", which, cycles, lo, min(n, lo + 40)))
    from rvmc.runner import rotate

    agg = C.Agg()
    for r in ctx.pmap(_task, rotate(tasks, ctx.seed)):
        agg.merge(r)
    ctx.add(agg.violations)
    rl = run_ref_links(ctx)
    ctx.add(rl.violations)
    ok = agg.counters.get("ok", 0)
    return {
        "states": len(agg.digests) + ok,           # distinct Y1 plus the initial X of each chain
        "transitions": ok * cycles,
        "traces_validated_against_impl": ok,
        "exhaustive": True,
        "cycles": cycles,
        "reference_encoded_link_states": rl.replay_verified + 1,
        "initial_states": agg.evals, "loadable": ok, "unloadable": agg.counters.get("unloadable", 0),
        "loadable_but_unsavable": agg.counters.get("unsavable", 0),
        "fixture_mutants": nmut, "distinct_fixpoints": len(agg.digests),
        "samples": agg.samples,
        "rule": "open/save machine: every initial file X is driven through `cycles` load/save transitions; fixpoint must be reached at Y1",
    }
