"""C18 — loading restores global strictness and releases files on every exit path.

E-FLT: for every fixture x both initial values of the strictness flag x {caller's file object,
path opened by the library}: a fault (OSError) at EACH read / seek / tell call index of the
load; truncation of the input at every chunk boundary and every byte offset (files < 4 KiB;
thorough: every byte of every file); an exception at the k-th construction of the IFF chunk
reader for every k (counts across nested loads, so it lands inside embedded MetaModule projects
and sampler effects); nested containers truncated at each of their own chunk boundaries; an
unknown module type.  Whether the call returns or raises, afterwards the flag IS the value
before the call, a handle the library opened is closed, a handle the caller passed is not,
and a strict out-of-range assignment still raises.
"""
import os
import pathlib

from checks import common as C
from rvmc import treeenv
from rvmc.faults import FaultyFile, InjectedFault
from rvref import codec

PROPERTY = "C18"
LEVEL = "fault_enumeration"
ASSUMPTIONS = [
    "the library reaches files through read/seek/tell/close of the object it is given, or opens paths via pathlib.Path.open / "
    "builtins.open / io.open (all three wrapped from the check, no source hook); a path load reaching the file some other "
    "way is counted as untracked, not failed",
    "one fault per load (single-fault plans); the fault is an OSError subclass or a truncated input",
]

_opened = []
untracked = [0]
_real_open = pathlib.Path.open
_serve = {}


def _patched_open(self, *a, **kw):
    key = str(self)
    if key in _serve and _serve[key] == "real":
        f = _real_open(self, *a, **kw)       # a REAL file object (has fileno(), can be mmapped); only tracked
        _opened.append(f)
        return f
    if key in _serve:
        data, fail_at = _serve[key]
        f = FaultyFile(data, fail_at)
        _opened.append(f)
        return f
    return _real_open(self, *a, **kw)


import builtins
import io

_real_builtin_open = builtins.open
_real_io_open = io.open


def _patched_builtin_open(file, *a, **kw):
    key = os.fspath(file) if isinstance(file, (str, os.PathLike)) else None
    if key is not None and key in _serve:
        if _serve[key] == "real":
            f = _real_builtin_open(file, *a, **kw)
            _opened.append(f)
            return f
        data, fail_at = _serve[key]
        f = FaultyFile(data, fail_at)
        _opened.append(f)
        return f
    return _real_builtin_open(file, *a, **kw)


def _install_seams():
    pathlib.Path.open = _patched_open
    builtins.open = _patched_builtin_open
    io.open = _patched_builtin_open


def _remove_seams():
    pathlib.Path.open = _real_open
    builtins.open = _real_builtin_open
    io.open = _real_io_open


class ChunkFault(Exception):
    pass


def one_load(data, flag, mode, fail_at=None, chunk_fail=None, flag_how="assign"):
    """Runs one load under a fault plan; returns (outcome, violations-detail-list, counters)."""
    import rv.errors as E
    import rv.lib.iff as iff
    from rv.readers.reader import read_sunvox_file

    problems = []
    in_handler = [None]
    E.RAISE_CONTROLLER_VALUE_ERRORS = flag
    outer = None
    if flag_how == "context":
        # the caller established the setting with the library's own context manager and loads INSIDE the block
        E.RAISE_CONTROLLER_VALUE_ERRORS = not flag
        outer = E.override_raise_controller_value_errors(flag)
        outer.__enter__()
    elif flag_how == "context-assign":
        # the caller is inside an override block for the OTHER setting and has then assigned the documented module
        # variable directly: that assignment is the setting in force when the load starts, and when it ends
        E.RAISE_CONTROLLER_VALUE_ERRORS = flag
        outer = E.override_raise_controller_value_errors(not flag)
        outer.__enter__()
        E.RAISE_CONTROLLER_VALUE_ERRORS = flag
    real_chunk = iff.Chunk
    nchunks = [0]
    if chunk_fail is not None or mode == "count-chunks":
        def counting_chunk(*a, **kw):
            k = nchunks[0]
            nchunks[0] = k + 1
            if chunk_fail is not None and k == chunk_fail:
                raise ChunkFault(f"injected at chunk #{k}")
            return real_chunk(*a, **kw)
        iff.Chunk = counting_chunk
    handle = None
    try:
        if mode.startswith("realpath"):
            import tempfile

            fd, name = tempfile.mkstemp(prefix="rv-c18-", suffix=".sunvox")
            os.write(fd, data)
            os.close(fd)
            _serve[name] = "real"
            del _opened[:]
            # the name may be of any kind open() accepts; kinds the tree does not take as a file name are refused before
            # anything is opened (then there is nothing to close) -- whatever it DOES open itself, it closes
            kind = mode.partition(":")[2]
            if kind == "bytes":
                name_obj = os.fsencode(name)
            elif kind == "pathlike":
                class _Named:
                    def __fspath__(self):
                        return name
                name_obj = _Named()
            elif kind == "direntry":
                name_obj = next(e for e in os.scandir(os.path.dirname(name)) if e.name == os.path.basename(name))
            else:
                name_obj = name if len(data) % 2 else pathlib.Path(name)
            _install_seams()
            try:
                read_sunvox_file(name_obj)
                outcome = "returned"
            except BaseException as e:
                outcome = "raised:" + type(e).__name__
                in_handler[0] = E.RAISE_CONTROLLER_VALUE_ERRORS      # observed WHILE the exception (and its traceback) is alive
            finally:
                _remove_seams()
                _serve.pop(name, None)
                os.unlink(name)
            handle = _opened[-1] if _opened else None
            for h in _opened:
                if not h.closed:
                    problems.append(("library-opened-file-left-open", {"outcome": outcome}))
                    h.close()
                    break
            if handle is None and not kind:
                untracked[0] += 1      # the library reached the file some other way: nothing to assert
        elif mode == "path":
            name = "/nonexistent/rv-verif-c18.sunvox"
            _serve[name] = (data, fail_at)
            del _opened[:]
            _install_seams()
            try:
                read_sunvox_file(name)
                outcome = "returned"
            except BaseException as e:
                outcome = "raised:" + type(e).__name__
                in_handler[0] = E.RAISE_CONTROLLER_VALUE_ERRORS      # observed WHILE the exception (and its traceback) is alive
            finally:
                _remove_seams()
                _serve.pop(name, None)
            handle = _opened[-1] if _opened else None
            if handle is None:
                untracked[0] += 1      # opened through neither Path.open nor open(): nothing to assert in this mode
            elif any(not h.closed for h in _opened):
                problems.append(("library-opened-file-left-open", {"outcome": outcome}))
        else:
            handle = FaultyFile(data, fail_at)
            try:
                read_sunvox_file(handle)
                outcome = "returned"
            except BaseException as e:
                outcome = "raised:" + type(e).__name__
                in_handler[0] = E.RAISE_CONTROLLER_VALUE_ERRORS      # observed WHILE the exception (and its traceback) is alive
            if handle.closed:
                problems.append(("caller-file-closed-by-library", {"outcome": outcome}))
    finally:
        iff.Chunk = real_chunk
    after = E.RAISE_CONTROLLER_VALUE_ERRORS
    expected_now = flag          # also inside the caller's own override block (flag_how == "context")
    if in_handler[0] is not None and in_handler[0] is not expected_now:
        # the restore must have happened BEFORE the exception reaches the caller, not when the traceback is collected
        problems.append(("strictness-flag-not-restored-when-exception-reaches-caller",
                         {"expected": expected_now, "in_handler": in_handler[0], "outcome": outcome, "flag_how": flag_how}))
    if after is not flag:
        problems.append(("strictness-flag-not-restored", {"before": flag, "after": after, "outcome": outcome, "flag_how": flag_how}))
    if outer is not None:
        outer.__exit__(None, None, None)
        if E.RAISE_CONTROLLER_VALUE_ERRORS is not ((not flag) if flag_how == "context" else flag):
            problems.append(("callers-own-override-not-unwound", {"outcome": outcome}))
        E.RAISE_CONTROLLER_VALUE_ERRORS = flag
    if outcome == "raised:ControllerValueError":
        # a controller-value error can only be RAISED in strict mode: part of this load ran strict
        problems.append(("load-ran-in-strict-mode", {"outcome": outcome}))
    # consequence: strict API use right after the load
    E_after = after
    try:
        import rv.modules as M

        m = M.Amplifier()
        try:
            m.volume = 99999
            raised = False
        except E.ControllerValueError:
            raised = True
        if flag is True and not raised:
            problems.append(("later-api-use-lenient", {"outcome": outcome}))
    finally:
        E.RAISE_CONTROLLER_VALUE_ERRORS = True
    _ = E_after
    return outcome, problems, getattr(handle, "calls", {}) if handle is not None else {}, nchunks[0]


def plans_for(data, every_byte):
    """All single-fault plans for one file (flag/mode independent part)."""
    _o, _p, calls, nch = one_load(data, True, "count-chunks")
    plans = [("none", None)]
    for meth in ("read", "seek", "tell"):
        for k in range(calls.get(meth, 0)):
            plans.append(("call", (meth, k)))
    plans.append(("call", ("close", 0)))     # the library's own close() of a path-opened file reports an error
    for k in range(nch):
        plans.append(("chunk", k))
    # truncation
    offsets = set()
    pos = 0
    try:
        for cid, d in codec.parse_chunks(data):
            offsets.add(pos)
            offsets.add(pos + 4)
            offsets.add(pos + 8)
            pos += 8 + len(d)
    except Exception:
        pass
    if every_byte:
        offsets |= set(range(len(data)))
    for off in sorted(offsets):
        if off < len(data):
            plans.append(("trunc", off))
    # nested containers truncated at each of their own chunk boundaries
    try:
        chunks = codec.parse_chunks(data)
        for i, (cid, d) in enumerate(chunks):
            if cid == b"CHDT" and d[:4] in (b"SVOX", b"SSYN"):
                p2 = 0
                for _c, dd in codec.parse_chunks(d):
                    for off in (p2, p2 + 4, p2 + 8):
                        plans.append(("nested-trunc", (i, off)))
                    p2 += 8 + len(dd)
            if cid == b"STYP":
                plans.append(("styp", i))
            if cid == b"CVAL":
                plans.append(("cval", i))
    except Exception:
        pass
    return plans


def apply_plan(data, plan):
    kind, arg = plan
    if kind == "trunc":
        return data[:arg], None, None
    if kind == "nested-trunc":
        i, off = arg
        chunks = codec.parse_chunks(data)
        chunks[i] = (chunks[i][0], chunks[i][1][:off])
        return codec.build_chunks(chunks), None, None
    if kind == "styp":
        chunks = codec.parse_chunks(data)
        chunks[arg] = (b"STYP", b"No such module\0")
        return codec.build_chunks(chunks), None, None
    if kind == "cval":
        chunks = codec.parse_chunks(data)
        chunks[arg] = (b"CVAL", b"\xff\xff\xff\x7f")   # out of range: exercises the lenient path
        return codec.build_chunks(chunks), None, None
    if kind == "call":
        return data, arg, None
    if kind == "chunk":
        return data, None, arg
    return data, None, None


def run_plan(rel, data, plan, flag, mode, flag_how="assign"):
    d2, fail_at, chunk_fail = apply_plan(data, plan)
    outcome, problems, _calls, _n = one_load(d2, flag, mode, fail_at, chunk_fail, flag_how)
    vs = []
    for name, detail in problems:
        vs.append(C.viol(name, {"plan": plan[0], "mode": mode, "flag": flag, "outcome": outcome.split(":")[0]},
                         dict(detail, file=rel, plan=list(plan)),
                         {"fixture": rel, "plan": [plan[0], list(plan[1]) if isinstance(plan[1], tuple) else plan[1]],
                          "flag": flag, "mode": mode, "flag_how": flag_how}))
    return outcome, vs


def run_case(case):
    if "fifo" in case:
        return [v for v in non_seekable_paths()[1] if v["case"] == case]
    if "warnings_as_errors" in case:
        return [v for v in warnings_as_errors()[1] if v["case"] == case]
    if "unopenable" in case:
        return [v for v in unopenable_names()[1] if v["case"] == case]
    data = open(os.path.join(treeenv.FIXTURES, case["fixture"]), "rb").read()
    kind, arg = case["plan"]
    plan = (kind, tuple(arg) if isinstance(arg, list) else arg)
    return run_plan(case["fixture"], data, plan, case["flag"], case["mode"], case.get("flag_how", "assign"))[1]


def unopenable_names():
    """The earliest exit path: the name cannot be opened at all (missing file, a directory, an empty file, a file that is
    not a SunVox container), given as str and as Path, with both initial settings, plainly and inside the caller's own
    override block.  The load must raise, and the setting must be the caller's -- inside the handler and afterwards."""
    import pathlib
    import tempfile

    import rv.errors as E
    from rv.readers.reader import read_sunvox_file

    vs, n = [], 0
    d = tempfile.mkdtemp(prefix="rv-c18-names-")
    empty = os.path.join(d, "empty.sunvox")
    junk = os.path.join(d, "junk.sunvox")
    open(empty, "wb").close()
    with open(junk, "wb") as fh:
        fh.write(b"RIFF\x10\0\0\0WAVEfmt ")
    names = {"missing": os.path.join(d, "no-such-file.sunvox"), "directory": d, "empty-file": empty, "not-a-container": junk,
             "missing-dir": os.path.join(d, "no", "such", "dir", "x.sunsynth")}
    try:
        for what, name in names.items():
            for as_path in (False, True):
                for flag in (True, False):
                    for how in ("assign", "context"):
                        n += 1
                        case = {"unopenable": [what, as_path, flag, how]}
                        key = {"name": what, "given_as": "Path" if as_path else "str", "flag": flag, "flag_how": how}
                        E.RAISE_CONTROLLER_VALUE_ERRORS = flag
                        outer = None
                        if how == "context":
                            E.RAISE_CONTROLLER_VALUE_ERRORS = not flag
                            outer = E.override_raise_controller_value_errors(flag)
                            outer.__enter__()
                        in_handler = None
                        try:
                            read_sunvox_file(pathlib.Path(name) if as_path else name)
                            outcome = "returned"
                        except BaseException as e:
                            outcome = "raised:" + type(e).__name__
                            in_handler = E.RAISE_CONTROLLER_VALUE_ERRORS
                        after = E.RAISE_CONTROLLER_VALUE_ERRORS
                        if outer is not None:
                            outer.__exit__(None, None, None)
                            if E.RAISE_CONTROLLER_VALUE_ERRORS is not (not flag):
                                vs.append(C.viol("callers-own-override-not-unwound", key, {"outcome": outcome}, case))
                        E.RAISE_CONTROLLER_VALUE_ERRORS = True
                        if outcome == "returned" and what in ("missing", "directory", "missing-dir"):
                            vs.append(C.viol("unopenable-name-loads", key, {}, case))
                        if after is not flag or (in_handler is not None and in_handler is not flag):
                            vs.append(C.viol("strictness-flag-not-restored", dict(key, outcome=outcome.split(":")[0]),
                                             {"before": flag, "in_handler": in_handler, "after": after, "outcome": outcome}, case))
    finally:
        E.RAISE_CONTROLLER_VALUE_ERRORS = True
        for f in (empty, junk):
            os.unlink(f)
        os.rmdir(d)
    return n, vs[:8]


def non_seekable_paths():
    """A path that names a FIFO (not seekable): whether the load fails on the first seek or copes, every handle the library
    opened for that name is closed again and the setting is the caller's."""
    import pathlib
    import tempfile
    import threading

    import rv.errors as E
    from rv.readers.reader import read_sunvox_file

    vs, n = [], 0
    data = open(os.path.join(treeenv.FIXTURES, "amplifier.sunsynth"), "rb").read()
    d = tempfile.mkdtemp(prefix="rv-c18-fifo-")
    try:
        for as_path in (False, True):
            for flag in (True, False):
                n += 1
                name = os.path.join(d, f"pipe{n}.sunsynth")
                os.mkfifo(name)

                def feed(name=name):
                    try:
                        with _real_builtin_open(name, "wb") as w:
                            w.write(data)
                    except OSError:
                        pass
                th = threading.Thread(target=feed, daemon=True)
                th.start()
                case = {"fifo": [as_path, flag]}
                key = {"name": "fifo", "given_as": "Path" if as_path else "str", "flag": flag}
                E.RAISE_CONTROLLER_VALUE_ERRORS = flag
                _serve[name] = "real"
                del _opened[:]
                _install_seams()
                in_handler = None
                try:
                    read_sunvox_file(pathlib.Path(name) if as_path else name)
                    outcome = "returned"
                except BaseException as e:
                    outcome = "raised:" + type(e).__name__
                    in_handler = E.RAISE_CONTROLLER_VALUE_ERRORS
                finally:
                    _remove_seams()
                    _serve.pop(name, None)
                after = E.RAISE_CONTROLLER_VALUE_ERRORS
                E.RAISE_CONTROLLER_VALUE_ERRORS = True
                left_open = [h for h in _opened if not h.closed]
                for h in left_open:
                    h.close()
                if th.is_alive():
                    # nobody opened the read end: release the feeder
                    try:
                        fd = os.open(name, os.O_RDONLY | os.O_NONBLOCK)
                        os.close(fd)
                    except OSError:
                        pass
                    th.join(2)
                os.unlink(name)
                if left_open:
                    vs.append(C.viol("library-opened-file-left-open", dict(key, outcome=outcome.split(":")[0]), {"outcome": outcome}, case))
                if after is not flag or (in_handler is not None and in_handler is not flag):
                    vs.append(C.viol("strictness-flag-not-restored", dict(key, outcome=outcome.split(":")[0]),
                                     {"before": flag, "in_handler": in_handler, "after": after, "outcome": outcome}, case))
    finally:
        _remove_seams()
        try:
            os.rmdir(d)
        except OSError:
            pass
    return n, vs


def warnings_as_errors():
    """The caller runs with warnings turned into errors (`-W error`): whatever the library announces through the warnings
    module while loading -- now or in a later version -- then surfaces as an exception INSIDE the load; the setting must be
    the caller's again when it does, and after a load that returns."""
    import io
    import warnings
    from struct import pack

    import rv.errors as E
    from rv.readers.reader import read_sunvox_file
    from rvref import codec

    vs, n = [], 0
    for rel in ("amplifier.sunsynth", "metamodule.sunsynth", "sampler.sunsynth", "single-fm.sunvox"):
        path = os.path.join(treeenv.FIXTURES, rel)
        if not os.path.exists(path):
            continue
        data = open(path, "rb").read()
        chunks = codec.parse_chunks(data)
        variants = {"as-is": data,
                    "cvals-out-of-range": codec.build_chunks([(cid, pack("<i", 70000) if cid == b"CVAL" else d) for cid, d in chunks])}
        for vname, x in variants.items():
            for flag in (True, False):
                n += 1
                case = {"warnings_as_errors": [rel, vname, flag]}
                key = {"file": rel, "variant": vname, "flag": flag}
                E.RAISE_CONTROLLER_VALUE_ERRORS = flag
                in_handler = None
                with warnings.catch_warnings():
                    warnings.simplefilter("error")
                    try:
                        read_sunvox_file(io.BytesIO(x))
                        outcome = "returned"
                    except BaseException as e:
                        outcome = "raised:" + type(e).__name__
                        in_handler = E.RAISE_CONTROLLER_VALUE_ERRORS
                after = E.RAISE_CONTROLLER_VALUE_ERRORS
                E.RAISE_CONTROLLER_VALUE_ERRORS = True
                if after is not flag or (in_handler is not None and in_handler is not flag):
                    vs.append(C.viol("strictness-flag-not-restored", dict(key, outcome=outcome.split(":")[0], warnings="error"),
                                     {"before": flag, "in_handler": in_handler, "after": after, "outcome": outcome}, case))
    return n, vs[:6]


def _task(t):
    if t[0] == "fifo":
        r = C.new_result()
        n, vs = non_seekable_paths()
        r["evals"] = n
        r["violations"] = vs
        r["sample"] = {"fifo": [True, True]}
        return r
    if t[0] == "warnings":
        r = C.new_result()
        n, vs = warnings_as_errors()
        r["evals"] = n
        r["violations"] = vs
        r["sample"] = {"warnings_as_errors": ["amplifier.sunsynth", "as-is", True]}
        return r
    if t[0] == "unopenable":
        r = C.new_result()
        n, vs = unopenable_names()
        r["evals"] = n
        r["violations"] = vs
        C.count(r, "unopenable", n)
        r["sample"] = {"unopenable": ["missing", True, True, "assign"]}
        return r
    rel, every_byte, lo, hi = t
    r = C.new_result()
    data = open(os.path.join(treeenv.FIXTURES, rel), "rb").read()
    plans = plans_for(data, every_byte)[lo:hi]
    outcomes = set()
    for plan in plans:
        for flag in (True, False):
            for mode in ("fileobj", "path") + (("realpath",) if plan[0] in ("none", "trunc", "styp", "cval", "nested-trunc") else ()):
                outcome, vs = run_plan(rel, data, plan, flag, mode)
                if mode == "fileobj" and (plan[0] in ("none", "styp", "cval", "chunk", "nested-trunc") or
                                          (isinstance(plan[1], int) and plan[1] % 8 == 0)):
                    for how in ("context", "context-assign"):
                        o2, vs2 = run_plan(rel, data, plan, flag, mode, how)
                        vs = vs + vs2
                        r["evals"] += 1
                        C.count(r, "inside-callers-override-block")
                if mode == "realpath" and (plan[0] in ("none", "styp", "cval") or (isinstance(plan[1], int) and plan[1] % 16 == 0)):
                    for kind in ("bytes", "pathlike", "direntry"):
                        o3, vs3 = run_plan(rel, data, plan, flag, "realpath:" + kind)
                        vs = vs + vs3
                        r["evals"] += 1
                        C.count(r, "other-kinds-of-file-name")
                r["evals"] += 1
                C.count(r, outcome.split(":")[0])
                C.count(r, "plan-" + plan[0])
                if untracked[0]:
                    C.count(r, "path-loads-not-tracked", untracked[0])
                    untracked[0] = 0
                outcomes.add((plan[0], outcome))
                if len(r["violations"]) < 30:
                    r["violations"] += vs
    r["digests"] = {repr(o).encode() for o in outcomes}
    if plans:
        r["sample"] = {"fixture": rel, "plan": list(plans[-1]), "flag": False, "mode": "path"}
    return r


def run(ctx):
    treeenv.setup()
    tasks = []
    nplans = 0
    for f in treeenv.fixture_files():
        rel = os.path.relpath(f, treeenv.FIXTURES)
        data = open(f, "rb").read()
        every = ctx.thorough or len(data) < 4096
        n = len(plans_for(data, every))
        nplans += n
        for lo in range(0, n, 250):
            tasks.append((rel, every, lo, min(n, lo + 250)))
    tasks.append(("unopenable",))
    tasks.append(("warnings",))
    tasks.append(("fifo",))
    from rvmc.runner import rotate

    agg = C.Agg()
    for r in ctx.pmap(_task, rotate(tasks, ctx.seed)):
        agg.merge(r)
    ctx.add(agg.violations)
    import rv.errors as E

    if E.RAISE_CONTROLLER_VALUE_ERRORS is not True:
        ctx.add([C.viol("flag-leaked-into-harness", {}, {})])
    return {
        "evaluations": agg.evals,
        "distinct_nontrivial": len(agg.digests),
        "rule": "single-fault plans per fixture (every read/seek/tell index, every chunk-reader construction, truncation at "
                "every chunk boundary and byte, nested truncation, unknown type, out-of-range value) x flag {True,False} x "
                "{file object, path}; distinct_nontrivial = distinct (plan kind, outcome class) pairs observed",
        "exhaustive": True,
        "plans": nplans, "returned": agg.counters.get("returned", 0), "raised": agg.counters.get("raised", 0),
        "by_plan_kind": {k[5:]: v for k, v in agg.counters.items() if k.startswith("plan-")},
        "loads_inside_a_callers_override_block": agg.counters.get("inside-callers-override-block", 0),
        "loads_by_other_kinds_of_file_name": agg.counters.get("other-kinds-of-file-name", 0),
        "path_loads_whose_handle_could_not_be_tracked": agg.counters.get("path-loads-not-tracked", 0),
        "samples": agg.samples,
    }
