"""C20 — MultiCtl fan-out stays within each target's range and is monotone.

 (a) MultiCtl.macro for EVERY (module type, controller) target (502 calls), for 16 and 17
     targets and for two targets on one module;
 (b) end to end on the real modules: for each distinct (min, max, kind) of fixed-range
     controllers in the specification a MultiCtl linked to such a controller, the value axis
     enumerated COMPLETELY (all 32769 inputs) for each tuple of a fixed parameter grid
     (gain x quantization x mapping window in both orientations x curve);
 (c) a link whose mapping names no controller leaves its target untouched.
Oracle: delivered value within [min, max] of the target, non-decreasing in the input for a
normal window, non-increasing for a reversed one.
"""
import itertools

from checks import common as C
from rvmc import snapshot as S, spec, treeenv

PROPERTY = "C20"
LEVEL = "exploration"
ASSUMPTIONS = [
    "the value axis is complete; gain/quantization/window/curve come from a fixed grid (stated in the evidence), as the "
    "property's own quantifier says ('value axis enumerated completely for sampled parameter tuples')",
    "curves are monotone non-decreasing tables of 257 entries in 0..32768",
    "targets are fixed-range controllers; enum/bool/unit-dependent targets are only required not to be corrupted",
]

GAINS = [0, 1, 255, 256, 257, 1024]
QUANTS = [0, 1, 2, 3, 100, 32767, 32768]
WIN = [0, 1, 16384, 32767, 32768]


def curves():
    lin = [min(32768, i * 128) for i in range(257)]
    out = {"default": None, "linear": lin, "all0": [0] * 257, "all32768": [32768] * 257}
    for pos in (1, 64, 128, 255):
        out[f"step{pos}"] = [0] * pos + [32768] * (257 - pos)
    # strictly non-linear monotone curves (interpolation between neighbours matters only for these)
    out["sqrt"] = [min(32768, int(32768 * (i / 256) ** 0.5)) for i in range(257)]
    out["square"] = [min(32768, int(32768 * (i / 256) ** 2)) for i in range(257)]
    out["stair16"] = [min(32768, (i // 16) * 2048) for i in range(257)]
    return out


def grid(thorough):
    base_w = (0, 32768)
    tuples = []
    for g in GAINS:
        for q in QUANTS:
            tuples.append((g, q, base_w, "default"))
    for (g, q) in ((256, 32768), (1024, 3)):
        for a in WIN:
            for b in WIN:
                tuples.append((g, q, (a, b), "default"))
    for cn in curves():
        for w in (base_w, (32768, 0), (100, 30000)):
            tuples.append((256, 32768, w, cn))
            tuples.append((300, 7, w, cn))
            if cn in ("sqrt", "square", "stair16"):
                tuples.append((384, 32768, w, cn))
                tuples.append((1024, 32768, w, cn))
    seen = []
    for t in tuples:
        if t not in seen:
            seen.append(t)
    if thorough:
        for t in ((256, 17, (16384, 16384), "default"), (256, 3, (0, 0), "default"), (300, 100, (32768, 32768), "default"),
                  (256, 2, (1, 1), "sqrt")):
            if t not in seen:
                seen.append(t)
        return seen
    keep = [t for i, t in enumerate(seen) if i % 4 == 0 or t[2] in ((32768, 0), (1, 0)) and i % 2 == 0]
    keep = keep[:36]
    # gain above unity TOGETHER with a non-linear curve, unquantised, normal and reversed window (always kept)
    for t in seen:
        if t[3] in ("sqrt", "square", "stair16") and t[0] > 256 and t[1] == 32768 and t[2] in (base_w, (32768, 0)) and t not in keep:
            keep.append(t)
    # a window of ZERO width (the target is pinned to one point) together with a quantizer, and without one
    for t in ((256, 17, (16384, 16384), "default"), (256, 3, (0, 0), "default"), (300, 100, (32768, 32768), "default"),
              (256, 32768, (16384, 16384), "default"), (256, 2, (1, 1), "sqrt")):
        if t not in keep:
            keep.append(t)
    return keep


def targets():
    """One representative controller per distinct (min, max, kind) of fixed ranges."""
    reps = {}
    for tkey, t in spec.types().items():
        if tkey in ("MultiCtl", "MetaModule", "Output"):
            continue
        for c in t.controllers:
            if c.kind in ("range", "compact", "no_offset"):
                reps.setdefault((c.min, c.max, c.kind), (tkey, c.attr, c.number))
    return reps


def build(tkey):
    import rv.api as rv

    p = rv.Project()
    tgt = p.new_module(getattr(rv.m, tkey))
    mc = p.new_module(rv.m.MultiCtl)
    return p, tgt, mc


def sweep(tkey, cattr, cnum, lo, hi, params, values):
    g, q, (wmin, wmax), cname = params[:4]
    lenient = len(params) > 4 and params[4] == "lenient"
    if lenient:
        # the library's lenient mode (out-of-range assignments are tolerated instead of refused) is a mode of the
        # ASSIGNMENT interface; what a MultiCtl delivers stays inside the target's range in either mode
        from rv.errors import override_raise_controller_value_errors

        with override_raise_controller_value_errors(False):
            return sweep(tkey, cattr, cnum, lo, hi, tuple(params[:4]) + ("lenient-inner",), values)
    p, tgt, mc = build(tkey)
    mp = mc.mappings.values[0]
    mp.min, mp.max, mp.controller = wmin, wmax, cnum
    mc >> tgt
    mc.gain = g
    mc.quantization = q
    cv = curves()[cname]
    if cv is not None:
        mc.curve.values = list(cv)
    vs = []
    prev = None
    reverse = wmin > wmax
    key = {"target": f"{tkey}.{cattr}", "window": "reversed" if reverse else "normal"}
    case = {"target": [tkey, cattr, cnum, lo, hi], "params": [g, q, [wmin, wmax], cname]}
    if len(params) > 4:
        key["mode"] = "lenient"
        case["params"].append("lenient")
    n = 0
    for v in values:
        n += 1
        try:
            mc.value = v
        except Exception as e:
            vs.append(C.viol("delivery-raises", dict(key, exc=type(e).__name__), {"input": v, "error": repr(e)[:200]}, case))
            break
        got = getattr(tgt, cattr)
        if not (lo <= got <= hi):
            vs.append(C.viol("out-of-range", key, {"input": v, "delivered": got, "range": [lo, hi]}, case))
            break
        if prev is not None and ((got > prev) if reverse else (got < prev)):
            vs.append(C.viol("not-monotone", key, {"input": v, "delivered": got, "previous": prev}, case))
            break
        prev = got
    return n, vs


def macro_all():
    import rv.api as rv
    from rv.errors import MappingError

    vs = []
    n = 0
    for tkey, t in spec.types().items():
        if tkey == "Output":
            continue
        for c in t.controllers:
            n += 1
            case = {"macro": [tkey, c.attr]}
            key = {"type": tkey, "controller": c.name}
            p = rv.Project()
            tgt = p.new_module(getattr(rv.m, tkey))
            try:
                mc = rv.m.MultiCtl.macro(p, (tgt, c.attr))
            except Exception as e:
                vs.append(C.viol("macro-raises", {"exc": type(e).__name__, "kind": c.kind}, {"target": [tkey, c.name], "error": repr(e)[:200]}, case))
                continue
            if not isinstance(mc, rv.m.MultiCtl) or mc.parent is not p or mc not in p.modules:
                vs.append(C.viol("macro-not-attached", key, {}, case))
                continue
            if [x for x in mc.out_links if x >= 0] != [tgt.index] or tgt.index not in [x for x in mc.out_links]:
                vs.append(C.viol("macro-not-linked", key, {"out_links": list(mc.out_links)}, case))
            if mc.index not in tgt.in_links:
                vs.append(C.viol("macro-not-linked", key, {"in_links": list(tgt.in_links)}, case))
            if mc.mappings.values[0].controller != c.number:
                vs.append(C.viol("macro-wrong-controller", key, {"mapping": mc.mappings.values[0].controller, "number": c.number}, case))
            # drive it over a lattice: must stay in range / not corrupt the target
            if c.kind in ("range", "compact", "no_offset"):
                prev = None
                for v in list(range(0, 32769, 256)) + [1, 32767, 32768]:
                    try:
                        mc.value = v
                    except Exception as e:
                        vs.append(C.viol("macro-delivery-raises", dict(key, exc=type(e).__name__), {"input": v}, case))
                        break
                    got = getattr(tgt, c.attr)
                    if not (c.min <= got <= c.max):
                        vs.append(C.viol("macro-out-of-range", key, {"input": v, "delivered": got}, case))
                        break
    # 16 targets ok, 17 refused, two targets on one module refused
    p = rv.Project()
    mods = [p.new_module(rv.m.Amplifier) for _ in range(17)]
    n += 3
    try:
        mc = rv.m.MultiCtl.macro(p, *[(m, "volume") for m in mods[:16]])
        if sorted(x for x in mc.out_links if x >= 0) != sorted(m.index for m in mods[:16]):
            vs.append(C.viol("macro-16-links", {}, {"out_links": list(mc.out_links)}, {"macro16": True}))
    except Exception as e:
        vs.append(C.viol("macro-raises", {"exc": type(e).__name__, "kind": "16-targets"}, {"error": repr(e)[:200]}, {"macro16": True}))
    before = S.project(p)
    for label, pairs in (("17-targets", [(m, "volume") for m in mods]),
                         ("same-module-twice", [(mods[0], "volume"), (mods[0], "balance")]),
                         ("same-module-twice-not-adjacent", [(mods[0], "volume"), (mods[1], "volume"), (mods[0], "balance")]),
                         ("same-module-twice-far-apart", [(m, "volume") for m in mods[:15]] + [(mods[0], "balance")]),
                         ("same-pair-twice", [(mods[2], "volume"), (mods[3], "volume"), (mods[2], "volume")])):
        try:
            rv.m.MultiCtl.macro(p, *pairs)
            vs.append(C.viol("macro-not-refused", {"what": label}, {}, {"macro16": True}))
        except MappingError:
            pass
        except Exception as e:
            vs.append(C.viol("macro-wrong-error", {"what": label, "exc": type(e).__name__}, {"error": repr(e)[:200]}, {"macro16": True}))
    _ = before
    return n, vs


def macro_retry():
    """A macro request the library REFUSES (initial value outside 0..32768) followed by the same request with a valid
    value -- for the same targets, for some of them, for others: the MultiCtl of the second call is attached, linked to
    each of its targets exactly once and drives all of them over their whole range."""
    import rv.api as rv

    vs, n = [], 0
    specs = {"amp": ("Amplifier", "volume", 0, 1024), "gen": ("Generator", "panning", -128, 128), "flt": ("Filter", "freq", 0, 14000)}
    for first, second in itertools.product((("amp", "gen"), ("amp",), ("gen", "flt"), ("amp", "gen", "flt")), repeat=2):
        for bad in (40000, -1, "dup", "17"):
            n += 1
            case = {"macro_retry": [list(first), list(second), bad]}
            key = {"refused_for": "same" if first == second else "overlapping" if set(first) & set(second) else "other"}
            p = rv.Project()
            mods = {k: p.new_module(getattr(rv.m, specs[k][0])) for k in specs}
            try:
                if bad == "dup":
                    # refused because two pairs name the same module -- AFTER the pairs in front of them were looked at
                    rv.m.MultiCtl.macro(p, *([(mods[k], specs[k][1]) for k in first] + [(mods[first[0]], specs[first[0]][1])]))
                elif bad == "17":
                    extra = [p.new_module(rv.m.Amplifier) for _ in range(17)]
                    rv.m.MultiCtl.macro(p, *([(mods[k], specs[k][1]) for k in first] + [(x, "volume") for x in extra]))
                else:
                    rv.m.MultiCtl.macro(p, *[(mods[k], specs[k][1]) for k in first], initial=bad)
                continue            # the tree accepts the request: nothing was refused, nothing to retry
            except Exception:
                pass
            try:
                mc = rv.m.MultiCtl.macro(p, *[(mods[k], specs[k][1]) for k in second], initial=16384)
            except Exception as e:
                vs.append(C.viol("macro-raises", dict(key, exc=type(e).__name__, after="refused-macro"), {"error": repr(e)[:200]}, case))
                continue
            want = sorted(mods[k].index for k in second)
            if mc.parent is not p or mc not in p.modules or sorted(x for x in mc.out_links if x >= 0) != want \
                    or any(list(mods[k].in_links).count(mc.index) != 1 for k in second):
                vs.append(C.viol("macro-not-linked", dict(key, after="refused-macro"),
                                 {"out_links": list(mc.out_links), "targets": want,
                                  "in_links": {k: list(mods[k].in_links) for k in second}}, case))
                continue
            mc.value = 0
            at0 = {k: getattr(mods[k], specs[k][1]) for k in second}
            mc.value = 32768
            at1 = {k: getattr(mods[k], specs[k][1]) for k in second}
            # every target follows the input: in range, and the top of the input range lands above the bottom
            if any(not (specs[k][2] <= at0[k] < at1[k] <= specs[k][3]) for k in second):
                vs.append(C.viol("macro-target-not-driven", dict(key, after="refused-macro"),
                                 {"delivered_at_0": at0, "delivered_at_32768": at1}, case))
    return n, vs


def dependent_targets():
    """Unit-dependent ranged targets (the declared range is the one of the unit currently selected): with the macro's
    window and with the full window, normal and reversed, the target either stays untouched or holds a value of the
    range declared for its unit -- for every unit."""
    import rv.api as rv

    vs, n = [], 0
    lattice = sorted(set(list(range(0, 32769, 64)) + [1, 2, 255, 256, 257, 32767, 32768]))
    for tkey, t in spec.types().items():
        by_name = {x.name: x for x in t.controllers}
        for c in t.controllers:
            if c.kind != "dependent":
                continue
            u = by_name[c.depends_on]
            for unit, (lo, hi) in c.ranges.items():
                for window in ("macro", (0, 32768), (32768, 0)):
                    p = rv.Project()
                    tgt = p.new_module(getattr(rv.m, tkey))
                    setattr(tgt, u.attr, u.members[unit])
                    key = {"target": f"{tkey}.{c.name}", "unit": unit, "window": window if window == "macro" else list(window)}
                    case = {"dependent": [tkey, c.name, unit, key["window"]]}
                    try:
                        mc = rv.m.MultiCtl.macro(p, (tgt, c.attr))
                    except Exception as e:
                        vs.append(C.viol("macro-raises", {"exc": type(e).__name__, "kind": "dependent"}, {"target": [tkey, c.name]}, case))
                        continue
                    if window != "macro":
                        mc.mappings.values[0].min, mc.mappings.values[0].max = window
                    for v in lattice:
                        n += 1
                        try:
                            mc.value = v
                        except Exception as e:
                            vs.append(C.viol("delivery-raises", dict(key, exc=type(e).__name__), {"input": v}, case))
                            break
                        got = getattr(tgt, c.attr)
                        if not (lo <= got <= hi):
                            vs.append(C.viol("out-of-range", key, {"input": v, "delivered": got, "range": [lo, hi]}, case))
                            break
    return n, vs[:8]


def macro_orders():
    """macro() with several targets given in EVERY order of module numbers, each pair naming a different controller and
    one pair's window reversed afterwards: link i and mapping i must describe the same pair -- each target's mapped
    controller (and no other controller of it) follows the input, in the direction of ITS window."""
    import rv.api as rv

    vs, n = [], 0
    attrs = ("volume", "balance", "dc_offset")
    for order in itertools.permutations(range(3)):
        for rev in range(3):
            n += 1
            p = rv.Project()
            mods = [p.new_module(rv.m.Amplifier) for _ in range(3)]
            pairs = [(mods[i], attrs[i]) for i in order]
            case = {"macro_order": [list(order), rev]}
            key = {"order": "".join(map(str, order)), "reversed_pair": rev}
            try:
                mc = rv.m.MultiCtl.macro(p, *pairs)
            except Exception as e:
                vs.append(C.viol("macro-raises", {"exc": type(e).__name__, "kind": "several-targets"}, {"error": repr(e)[:200]}, case))
                continue
            mp = mc.mappings.values[rev]
            mp.min, mp.max = mp.max, mp.min
            defaults = {a: getattr(rv.m.Amplifier(), a) for a in rv.m.Amplifier.controllers}
            seen = {}
            for v in (0, 8192, 16384, 24576, 32768):
                mc.value = v
                for j, (mod, attr) in enumerate(pairs):
                    seen.setdefault(j, []).append(getattr(mod, attr))
                    others = {a: getattr(mod, a) for a in defaults if a != attr}
                    if others != {a: d for a, d in defaults.items() if a != attr}:
                        vs.append(C.viol("macro-drives-wrong-controller", key,
                                         {"pair": j, "module": mod.index, "mapped": attr,
                                          "changed": sorted(a for a in others if others[a] != defaults[a])}, case))
                        break
            for j, vals in seen.items():
                up = all(a <= b for a, b in zip(vals, vals[1:])) and vals[0] < vals[-1]
                down = all(a >= b for a, b in zip(vals, vals[1:])) and vals[0] > vals[-1]
                if (j == rev and not down) or (j != rev and not up):
                    vs.append(C.viol("macro-pair-follows-another-pairs-window", key, {"pair": j, "values": vals}, case))
    return n, vs[:8]


def unset_mapping():
    """A link whose mapping names no controller (controller == 0) leaves its target untouched."""
    import rv.api as rv

    vs = []
    n = 0
    for tkey in spec.types():
        if tkey in ("Output",):
            continue
        n += 1
        p = rv.Project()
        tgt = p.new_module(getattr(rv.m, tkey))
        mc = p.new_module(rv.m.MultiCtl)
        mc >> tgt
        before = S.module(tgt)
        err = None
        for v in (0, 1, 12345, 32768):
            try:
                mc.value = v
            except Exception as e:
                err = repr(e)[:200]
                break
        d = S.diff(before, S.module(tgt))
        if d or err:
            vs.append(C.viol("unset-mapping-touches-target", {"type": tkey},
                             {"diff": S.diff_text(d), "error": err}, {"unset": tkey}))
    return n, vs


# ----------------------------------------------------------------------------- (d) histories
H_CTLS = {"volume": 1, "fine_volume": 7}


def h_ops():
    ops = [{"op": "link", "j": 2}, {"op": "link", "j": 3}, {"op": "unlink", "j": 1}, {"op": "unlink", "j": 2}]
    for i in (0, 1):
        # REBIND the mapping object (same controller, other window) instead of editing it in place
        ops.append({"op": "remap", "i": i, "min": 0x8000, "max": 0, "c": 1})
        ops.append({"op": "remap", "i": i, "min": 100, "max": 20000, "c": 7})
    for i in range(3):
        for c in (0, 1, 7):
            ops.append({"op": "map", "i": i, "c": c})
    for v in (0, 1, 32768):
        ops.append({"op": "value", "v": v})
    for j in (1, 2, 3):
        ops.append({"op": "ext", "j": j})
    return ops


def h_build(variant):
    import rv.api as rv

    p = rv.Project()
    amps = [p.new_module(rv.m.Amplifier) for _ in range(4)]      # amps[3] is never linked
    if variant == "macro":
        mc = rv.m.MultiCtl.macro(p, (amps[0], "volume"))
    else:
        mc = p.new_module(rv.m.MultiCtl)
        mc >> amps[0]
    return p, amps, mc


def h_config(mc):
    return {"links": list(mc.out_links), "maps": [[m.min, m.max, m.controller] for m in mc.mappings.values[:4]],
            "gain": mc.gain, "quant": mc.quantization}


def h_fresh_delivery(cfg, v, pre):
    """What a FRESH MultiCtl with the same configuration delivers for input v (history independence)."""
    import rv.api as rv

    p = rv.Project()
    amps = [p.new_module(rv.m.Amplifier) for _ in range(4)]
    for a, st in zip(amps, pre):
        a.volume, a.fine_volume = st
    mc = p.new_module(rv.m.MultiCtl, gain=cfg["gain"])
    mc.quantization = cfg["quant"]
    # replicate the link TABLE exactly (freed slots included): mapping i belongs to link slot i
    mc.out_links[:] = list(cfg["links"])
    mc.out_link_slots[:] = [0 if t >= 0 else -1 for t in cfg["links"]]
    for t in cfg["links"]:
        if t >= 0:
            p.modules[t].in_links.append(mc.index)
            p.modules[t].in_link_slots.append(cfg["links"].index(t))
    for i, (mn, mx, c) in enumerate(cfg["maps"]):
        mp = mc.mappings.values[i]
        mp.min, mp.max, mp.controller = mn, mx, c
    if mc.value == v:
        mc.value = (v + 1) % 32769
        for a, st in zip(amps, pre):
            a.volume, a.fine_volume = st
    mc.value = v
    return [(a.volume, a.fine_volume) for a in amps]


def run_history(variant, hist):
    vs = []
    case = {"variant": variant, "history": hist}
    try:
        p, amps, mc = h_build(variant)
    except Exception as e:
        return [C.viol("macro-raises", {"exc": type(e).__name__, "kind": "history-setup"}, {"error": repr(e)[:200]}, case)]
    for step, op in enumerate(hist):
        k = op["op"]
        if k == "link":
            mc >> amps[op["j"] - 1]
        elif k == "unlink":
            mc >> ~amps[op["j"] - 1]
        elif k == "remap":
            import rv.api as rv

            mc.mappings.values[op["i"]] = rv.m.MultiCtl.Mapping((op["min"], op["max"], op["c"], 0, 0, 0, 0, 0))
        elif k == "map":
            before = [[m.min, m.max, m.controller] for m in mc.mappings.values]
            mc.mappings.values[op["i"]].controller = op["c"]
            after = [[m.min, m.max, m.controller] for m in mc.mappings.values]
            before[op["i"]][2] = op["c"]
            if after != before:
                vs.append(C.viol("mapping-slots-aliased", {"variant": variant}, {"step": step, "op": op}, case))
                break
        elif k == "ext":
            amps[op["j"] - 1].volume = 5
        elif k == "value":
            pre = [(a.volume, a.fine_volume) for a in amps]
            cfg = h_config(mc)
            try:
                if mc.value == op["v"]:
                    pass
                mc.value = op["v"]
            except Exception as e:
                vs.append(C.viol("delivery-raises", {"variant": variant, "exc": type(e).__name__}, {"step": step}, case))
                break
            got = [(a.volume, a.fine_volume) for a in amps]
            want = h_fresh_delivery(cfg, op["v"], pre)
            linked = {t for t in cfg["links"] if t >= 0}
            touched = [j + 1 for j in range(len(amps)) if got[j] != pre[j] and (j + 1) not in linked]
            if touched:
                vs.append(C.viol("delivery-to-a-module-that-is-not-a-target", {"variant": variant},
                                 {"step": step, "input": op["v"], "modules": touched, "links": cfg["links"]}, case))
                break
            if got != want:
                vs.append(C.viol("delivery-depends-on-history", {"variant": variant},
                                 {"step": step, "input": op["v"], "delivered": got, "fresh": want, "config": cfg}, case))
                break
            for i, t in enumerate(cfg["links"]):
                if t >= 0 and i < len(cfg["maps"]) and cfg["maps"][i][2] == 0 and got[t - 1] != pre[t - 1]:
                    if not any(tt == t and cfg["maps"][ii][2] != 0 for ii, tt in enumerate(cfg["links"]) if ii < len(cfg["maps"])):
                        vs.append(C.viol("unset-mapping-touches-target", {"type": "Amplifier", "history": True}, {"step": step}, case))
    if not vs:
        # ABSOLUTE oracle at the end of every history (the fresh-object differential cannot see a fault that a fresh object
        # shares): over an ascending input sweep each linked target moves in the direction of ITS OWN window -- whatever
        # the windows of other links, delivering or not, look like
        try:
            cfg = h_config(mc)
            seen = {}
            for v in (0, 4096, 8192, 16384, 24576, 32768):
                mc.value = v
                for i, t in enumerate(cfg["links"]):
                    if t >= 0 and i < len(cfg["maps"]) and cfg["maps"][i][2] in (1, 7):
                        a = amps[t - 1]
                        seen.setdefault(i, []).append(a.volume if cfg["maps"][i][2] == 1 else a.fine_volume)
            for i, vals in seen.items():
                mn, mx, _c = cfg["maps"][i]
                if sum(1 for ii, tt in enumerate(cfg["links"]) if tt == cfg["links"][i] and ii < len(cfg["maps"]) and cfg["maps"][ii][2] == _c) > 1:
                    continue        # two links drive the same controller of one module: the later one wins
                up = all(x <= y for x, y in zip(vals, vals[1:]))
                down = all(x >= y for x, y in zip(vals, vals[1:]))
                if (mn <= mx and not up) or (mn > mx and not down):
                    vs.append(C.viol("not-monotone", {"variant": variant, "history": True, "window": "reversed" if mn > mx else "normal"},
                                     {"link": i, "window": [mn, mx], "delivered": vals, "config": cfg}, case))
                    break
        except Exception as e:
            vs.append(C.viol("delivery-raises", {"variant": variant, "exc": type(e).__name__, "at": "final-sweep"}, {}, case))
    return vs


def histories_task(t):
    import itertools

    variant, depth, lo, hi = t
    ops = h_ops()
    r = C.new_result()
    for first in ops[lo:hi]:
        for d in range(0, depth):
            for rest in itertools.product(ops, repeat=d):
                hist = [first] + list(rest)
                if hist[-1]["op"] not in ("value", "map"):
                    continue            # oracles fire on value / map ops only
                if d == depth - 1 and depth >= 4 and not any(o["op"] in ("unlink", "remap", "link") for o in hist[:-1]):
                    pass
                vs = run_history(variant, hist)
                r["evals"] += 1
                C.count(r, "histories")
                if len(r["violations"]) < 10:
                    r["violations"] += vs
    r["sample"] = {"variant": variant, "history": [ops[lo], ops[-4]]}
    return r


def run_case(case):
    if "history" in case:
        return run_history(case["variant"], case["history"])
    if "macro" in case or "macro16" in case:
        return macro_all()[1]
    if "unset" in case:
        return unset_mapping()[1]
    if "dependent" in case:
        return [v for v in dependent_targets()[1] if v["case"] == case]
    if "macro_retry" in case:
        return [v for v in macro_retry()[1] if v["case"] == case]
    if "macro_order" in case:
        return [v for v in macro_orders()[1] if v["case"] == case]
    tkey, cattr, cnum, lo, hi = case["target"]
    g, q, w, cn = case["params"][:4]
    return sweep(tkey, cattr, cnum, lo, hi, (g, q, tuple(w), cn) + tuple(case["params"][4:5]), range(32769))[1]


def _task(t):
    r = C.new_result()
    if t[0] == "hist":
        return histories_task(t[1:])
    if t[0] == "macro":
        n, vs = macro_all()
        C.count(r, "macro_calls", n)
    elif t[0] == "unset":
        n, vs = unset_mapping()
    elif t[0] == "dependent":
        n, vs = dependent_targets()
        C.count(r, "dependent", n)
    elif t[0] == "retry":
        n, vs = macro_retry()
        C.count(r, "retry", n)
    elif t[0] == "orders":
        n, vs = macro_orders()
        C.count(r, "orders", n)
    else:
        _k, (lo, hi, kind), (tkey, cattr, cnum), params = t
        n, vs = sweep(tkey, cattr, cnum, lo, hi, params, range(32769))
        r["sample"] = {"target": [tkey, cattr, cnum, lo, hi], "params": [params[0], params[1], list(params[2]), params[3]] + list(params[4:])}
        C.count(r, "sweeps")
    r["evals"] = n
    r["violations"] = vs
    return r


def run(ctx):
    treeenv.setup()
    reps = targets()
    keys = sorted(reps, key=lambda k: (k[1] - k[0], k[0], k[2]))
    if not ctx.thorough:
        pick = {keys[0], keys[1], keys[-1], keys[len(keys) // 2]}
        pick |= {k for k in keys if k[2] != "range"}
        neg = [k for k in keys if k[0] < 0]
        pick |= {neg[0], neg[-1], neg[(ctx.seed) % len(neg)]}
        pick |= {keys[(ctx.seed * 7 + 3) % len(keys)], keys[(ctx.seed * 11 + 5) % len(keys)]}
        keys = sorted(pick, key=lambda k: (k[1] - k[0], k[0], k[2]))
    g = grid(ctx.thorough)
    tasks = [("macro",), ("unset",), ("dependent",), ("orders",), ("retry",)]
    hdepth = 5 if ctx.thorough else 4
    for variant in ("macro", "plain"):
        for lo in range(len(h_ops())):
            tasks.append(("hist", variant, hdepth, lo, lo + 1))
    for k in keys:
        for params in g:
            tasks.append(("sweep", k, reps[k], params))
    for k in keys:
        if k[2] != "range" or k[0] < 0 or k == keys[0]:
            for params in ((256, 32768, (0, 32768), "default"), (1024, 32768, (32768, 0), "default"), (300, 7, (100, 30000), "sqrt")):
                tasks.append(("sweep", k, reps[k], params + ("lenient",)))
    from rvmc.runner import rotate

    agg = C.Agg()
    for r in ctx.pmap(_task, rotate(tasks, ctx.seed), chunksize=2):
        agg.merge(r)
    ctx.add(agg.violations)
    return {
        "evaluations": agg.evals,
        "distinct_nontrivial": agg.evals - agg.counters.get("sweeps", 0),
        "rule": "every (target span, parameter tuple, input value 0..32768) end to end through MultiCtl.value on real modules; "
                "502 macro calls; unset-mapping link on every type; distinct_nontrivial = evaluations minus the input-0 case of each sweep",
        "exhaustive": True,
        "value_axis": "all 32769 inputs", "target_spans": len(keys), "all_distinct_spans": len(reps),
        "parameter_tuples": len(g), "sweeps": agg.counters.get("sweeps", 0),
        "macro_calls": agg.counters.get("macro_calls", 0),
        "unit_dependent_target_deliveries": agg.counters.get("dependent", 0),
        "macro_argument_orders": agg.counters.get("orders", 0), "macro_requests_retried_after_a_refusal": agg.counters.get("retry", 0),
        "operation_histories": agg.counters.get("histories", 0), "history_depth": hdepth, "history_ops": len(h_ops()),
        "samples": agg.samples,
    }
