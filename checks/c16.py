"""C16 — Sampler instruments keep samples, envelopes and maps bit-exact.

E-DEV over Sampler objects: every subset of the slot window {0,1,2,127} and each single slot
0..127; sample data shapes x every format x channel combination; every sample field at its struct
width corners; every envelope with point lists of length 0/1/4/12/13, x/y at 16-bit and range
corners, every flag combination, point indices and ctl/gain/velocity corners; each of the 119
note-map keys individually + the all-distinct map; vibrato / fadeout / editor fields; an embedded
effect module; both contexts + clone().  Legacy: the fixture, the fixture with its envelope chunks
removed (forces the legacy envelope upgrade) and with the signature altered.
"""
import itertools
import os
from struct import unpack

from checks import common as C
from rvmc import deviate, snapshot as S, treeenv
from rvref import codec

PROPERTY = "C16"
LEVEL = "exploration"
ASSUMPTIONS = [
    "bounded: one deviation at a time from a base sampler (plus the slot-subset and format x channel products)",
    "volume/panning envelope point indices and counts stay within the 8-bit legacy fields that the record also carries",
    "sample names are byte strings up to 22 bytes without trailing NULs (the field is NUL padded)",
    "legacy conversion reference: y * 0x200 + range minimum, x unchanged, read from the documented record offsets",
]

U32M, I32M, I32L = 2**32 - 1, 2**31 - 1, -2**31
ENVS = ["volume_envelope", "panning_envelope", "pitch_envelope", "effect1", "effect2", "effect3", "effect4"]
ENV_RANGE = {"volume_envelope": (0, 0x8000), "panning_envelope": (-0x4000, 0x4000), "pitch_envelope": (-0x4000, 0x4000)}


def env_range(name):
    return ENV_RANGE.get(name, (0, 0x8000))


def get_env(mod, name):
    if name.startswith("effect"):
        return mod.effect_control_envelopes[int(name[-1]) - 1]
    return getattr(mod, name)


DATA = {"empty": b"", "one": b"\x7f", "frame": bytes(range(8)), "odd": bytes(range(1, 12)), "all256": bytes(range(256)),
        # payloads at and around typical buffer sizes (a writer that treats large chunks differently)
        "64k-1": bytes(i * 7 % 251 for i in range(65535)), "64k": bytes(i * 7 % 251 for i in range(65536)),
        "64k+8": bytes(i * 7 % 251 for i in range(65544)), "256k": bytes(i * 13 % 253 for i in range(262144))}


def apply_spec(mod, spec):
    """spec: list of edits (JSON)."""
    import rv.api as rv

    for e in spec:
        k = e["k"]
        if k == "sample":
            s = mod.Sample()
            s.data = DATA[e.get("data", "frame")]
            s.format = mod.Format(e.get("format", 2))
            s.channels = mod.Channels(8 if e.get("stereo") else 0)
            for f, v in e.get("fields", {}).items():
                if f == "loop_type":
                    v = mod.LoopType(v)
                setattr(s, f, v)
            mod.samples[e["i"]] = s
        elif k == "sample_clear":
            mod.samples[e["i"]] = None
        elif k == "sample_alias":
            mod.samples[e["to"]] = mod.samples[e["from"]]      # the SAME Sample object in a second slot
        elif k == "env":
            env = get_env(mod, e["e"])
            for f, v in e["fields"].items():
                if f == "points":
                    v = [tuple(p) for p in v]
                setattr(env, f, v)
        elif k == "env_rebind":
            # REBIND the envelope object (instead of editing it in place)
            en = e["e"]
            if en.startswith("effect"):
                i = int(en[-1]) - 1
                new = mod.EffectControlEnvelope(mod.effect_control_envelopes[i].chnm)
            else:
                new = {"volume_envelope": mod.VolumeEnvelope, "panning_envelope": mod.PanningEnvelope,
                       "pitch_envelope": mod.PitchEnvelope}[en]()
            lo, hi = env_range(en)
            new.points = [(0, lo), (7, hi), (30, (lo + hi) // 2)]
            new.enable, new.sustain, new.loop = True, True, True
            new.sustain_point, new.gain_pct = 1, 33
            if en.startswith("effect"):
                mod.effect_control_envelopes[i] = new
            else:
                setattr(mod, en, new)
        elif k == "rebind_lists":
            # rebind the list / map objects themselves
            old = mod.samples
            mod.samples = list(old)
            nm = mod.NoteSampleMap()
            for kk, vv in mod.note_samples.items():
                nm[kk] = vv
            mod.note_samples = nm
            mod.effect_control_envelopes = list(mod.effect_control_envelopes)
        elif k == "map":
            keys = list(mod.note_samples.keys())
            for i, v in e["entries"]:
                mod.note_samples[keys[i]] = v
        elif k == "field":
            v = e["v"]
            if e["n"] == "vibrato_type":
                v = mod.VibratoType(v)
            setattr(mod, e["n"], v)
        elif k == "effect":
            em = deviate.build(e["type"], e.get("devs", []))
            if e.get("bind"):
                # a MIDI binding on the effect's FIRST and LAST controller (a type may have exactly one)
                from rv.cmidmap import MidiMessageType

                names = [n for n, c in em.controllers.items() if c.attached(em)]
                for j, n in enumerate({names[0]: 0, names[-1]: 1}):
                    cm = em.controller_midi_maps[n]
                    cm.message_type, cm.channel, cm.message_parameter = MidiMessageType.control_change, 2 + j, 40 + j
            mod.effect = rv.Synth(em)
        elif k == "dev":
            deviate.apply_dev(mod, e["d"])
        else:
            raise ValueError(k)


def build_object(case):
    """Used by C03 too: returns a Synth or Project containing the sampler."""
    import rv.api as rv

    mod = rv.m.Sampler()
    apply_spec(mod, case["spec"])
    if case.get("ctx") == "project":
        p = rv.Project()
        p.attach_module(mod)
        return p
    return rv.Synth(mod)


def expected_snapshot(mod):
    s = S.module(mod, in_project=False)
    for smp in s["payload"]["samples"].values():
        smp["name"] = smp["name"][:22].rstrip(b"\0")
    return s


def check_case(case):
    import rv.api as rv

    vs = []
    key = {"what": case["label"]}
    mod = rv.m.Sampler()
    try:
        apply_spec(mod, case["spec"])
    except Exception as e:
        return [C.viol("api-rejects-in-domain-input", dict(key, exc=type(e).__name__), {"error": repr(e)[:200]}, case)], b""
    try:
        twin = rv.m.Sampler()
        apply_spec(twin, case["spec"])
        b_unobserved = C.save(rv.Synth(twin))                # saved without being read by the harness first
    except Exception:
        b_unobserved = None
    want = expected_snapshot(mod)
    try:
        b = C.save(rv.Synth(mod))
    except Exception as e:
        return [C.viol("save-raises", dict(key, exc=type(e).__name__), {"error": repr(e)[:200]}, case)], b""
    if b_unobserved is not None and b_unobserved != b:
        vs.append(C.viol("file-depends-on-whether-the-object-was-read-first", key,
                         {"first_difference": C.first_byte_diff(b_unobserved, b)}, case))
    for ctx in ("synth", "clone", "project"):
        try:
            if ctx == "synth":
                l = C.load_bytes(b).module
            elif ctx == "clone":
                l = mod.clone()
            else:
                p = rv.Project()
                p.attach_module(mod)
                l = C.load_bytes(C.save(p)).modules[1]
        except Exception as e:
            vs.append(C.viol("load-raises", dict(key, ctx=ctx, exc=type(e).__name__), {"error": repr(e)[:200]}, case))
            continue
        got = S.module(l, in_project=False)
        d = S.diff(want, got)
        if d:
            vs.append(C.viol("roundtrip", dict(key, ctx=ctx, path=C.first_diff_key(d)), {"diff": S.diff_text(d)}, case))
        if (l.version, l.max_version) != (mod.version, mod.max_version):
            vs.append(C.viol("roundtrip", dict(key, ctx=ctx, path="record version fields"),
                             {"expected": [mod.version, mod.max_version], "loaded": [l.version, l.max_version]}, case))
        slots = [i for i, s in enumerate(l.samples) if s is not None]
        if slots != sorted(want["payload"]["samples"].keys()):
            vs.append(C.viol("slot-indices-moved", dict(key, ctx=ctx), {"slots": slots}, case))
    # a LOADED sampler whose effect is removed / replaced before anything has read it
    if mod.effect is not None:
        try:
            for what, new_effect in (("removed", None), ("replaced", rv.Synth(rv.m.Filter()))):
                l = C.load_bytes(b).module
                l.effect = new_effect
                l2 = C.load_bytes(C.save(rv.Synth(l))).module
                got_t = None if l2.effect is None else l2.effect.module.mtype
                want_t = None if new_effect is None else "Filter"
                if got_t != want_t:
                    vs.append(C.viol("effect-edit-of-loaded-sampler-not-written", dict(key, edit=what), {"expected": want_t, "loaded": got_t}, case))
        except Exception as e:
            vs.append(C.viol("second-generation-raises", dict(key, exc=type(e).__name__, edit="effect"), {"error": repr(e)[:200]}, case))
    # second generation: the object has been saved several times by now; IN-PLACE edits of each sub-structure
    # must still reach the next file (a cached serialisation of the effect / a sample / an envelope would not)
    try:
        if mod.effect is not None:
            em = mod.effect.module
            for n_, c_ in em.controllers.items():
                t_ = c_.instance_value_type(em)
                if hasattr(t_, "max"):
                    setattr(em, n_, t_.min if getattr(em, n_) != t_.min else t_.max)
                    break
        for smp in mod.samples:
            if smp is not None:
                smp.volume = (smp.volume + 7) % 65
                smp.data = smp.data + b"\x01\x02"
                break
        mod.volume_envelope.points.append((0x300, 0x2000))
        mod.pitch_envelope.loop = not mod.pitch_envelope.loop
        keys = list(mod.note_samples.keys())
        mod.note_samples[keys[5]] = (mod.note_samples[keys[5]] + 1) % 128
        mod.vibrato_depth = (mod.vibrato_depth + 1) % 256
        if mod.parent is not None:
            mod.parent.modules[mod.index] = None
            mod.parent = None
            mod.index = None
        want2 = expected_snapshot(mod)
        got2 = S.module(C.load_bytes(C.save(rv.Synth(mod))).module, in_project=False)
        d = S.diff(want2, got2)
        if d:
            vs.append(C.viol("edit-after-save-not-written", dict(key, path=C.first_diff_key(d)), {"diff": S.diff_text(d)}, case))
    except Exception as e:
        vs.append(C.viol("second-generation-raises", dict(key, exc=type(e).__name__), {"error": repr(e)[:200]}, case))
    return vs, b


def poisoned_saves():
    import rv.api as rv

    def make():
        m = rv.m.Sampler()
        apply_spec(m, [{"k": "sample", "i": 0, "data": "all256"}, {"k": "sample", "i": 3, "data": "frame", "fields": {"volume": 9}},
                       {"k": "effect", "type": "Reverb"}, {"k": "map", "entries": [[2, 3]]}])
        return rv.Synth(m)

    def setter(path, attr, bad):
        def poison(o):
            tgt = path(o)
            old = getattr(tgt, attr)
            setattr(tgt, attr, bad)
            return (old,)

        def heal(o, token):
            setattr(path(o), attr, token[0])
        return poison, heal

    poisons = []
    for name, path, attr, bad in (
        ("sample0.name", lambda o: o.module.samples[0], "name", "not-bytes"),
        ("sample3.name", lambda o: o.module.samples[3], "name", "not-bytes"),
        ("sample0.volume", lambda o: o.module.samples[0], "volume", 300),
        ("sample3.panning", lambda o: o.module.samples[3], "panning", 999),
        ("sample3.data", lambda o: o.module.samples[3], "data", "not-bytes"),
        ("volume_envelope.gain_pct", lambda o: o.module.volume_envelope, "gain_pct", 999),
        ("pitch_envelope.points", lambda o: o.module.pitch_envelope, "points", [(0, 0), (1, 10**9)]),
        ("effect.module.color", lambda o: o.module.effect.module, "color", (300, 0, 0)),
        ("editor_cursor", lambda o: o.module, "editor_cursor", 2**40),
        ("module.color", lambda o: o.module, "color", (300, 0, 0)),
    ):
        po, he = setter(path, attr, bad)
        poisons.append((name, po, he))
    return C.poisoned_save_cycle(make, poisons, {"what": "poisoned-save"}, {"poisoned": True})


# ----------------------------------------------------------------------------- enumeration
def object_cases(ctx):
    cases = []

    def add(label, spec):
        cases.append({"label": label, "spec": spec})

    add("default", [])
    base = {"k": "sample", "i": 0}
    window = [0, 1, 2, 127]
    for r in range(0, 5):
        for sub in itertools.combinations(window, r):
            add("slot-subset", [{"k": "sample", "i": i, "data": "frame", "fields": {"volume": 10 + j}} for j, i in enumerate(sub)])
    for i in range(128):
        add("single-slot", [{"k": "sample", "i": i, "data": "all256"}])
    # histories of filling and EMPTYING slots (also slots that are empty already): whatever bookkeeping follows the
    # assignments must end where a sampler built directly into the final state ends
    slot_ops = [{"k": "sample", "i": i, "data": "odd", "fields": {"volume": 20 + i}} for i in (0, 2, 5)] + \
               [{"k": "sample_clear", "i": i} for i in (0, 2, 5)]
    for n in (2, 3):
        for seq in itertools.product(slot_ops, repeat=n):
            if any(e["k"] == "sample_clear" for e in seq):
                add("slot-history", [dict(e) for e in seq])
    for a, b in ((1, 6), (0, 127), (5, 2)):
        add("same-sample-object-in-two-slots", [{"k": "sample", "i": a, "data": "odd", "fields": {"volume": 33}},
                                                {"k": "sample", "i": 4, "data": "frame"}, {"k": "sample_alias", "from": a, "to": b}])
    for dn in DATA:
        for fmt in (1, 2, 4) if len(DATA[dn]) < 1000 else (2,):
            for st in (False, True) if len(DATA[dn]) < 1000 else (False,):
                add("data-format-channels", [{"k": "sample", "i": 1, "data": dn, "format": fmt, "stereo": st}])
    fields = {
        "volume": [0, 1, 64, 255], "finetune": [-128, -1, 0, 1, 127], "panning": [-128, -1, 0, 1, 127],
        "relative_note": [-128, -1, 0, 1, 127], "loop_start": [0, 1, 2**31, U32M], "loop_len": [0, 1, 2**31, U32M],
        "start_pos": [0, 1, 2**31, U32M], "rate": [0, 1, 8000, 44100, 48000, U32M],
        "name": [b"", b"a", b"n" * 21, b"n" * 22, b"n" * 23, bytes(range(1, 23)), b"a\0b"],
        "reserved2": [0],
    }
    for f, vals in fields.items():
        for v in vals:
            add("sample-field:" + f, [dict(base, fields={f: v})])
    for lt in (0, 1, 2):
        for sus in (False, True):
            add("sample-loop", [dict(base, fields={"loop_type": lt, "loop_sustain": sus})])
    # k = 2: every field value on a sample whose PCM is EMPTY (zero-length data chunk) and on a one-byte sample
    for f, vals in fields.items():
        for v in vals:
            for dn in ("empty", "one"):
                add("sample-field-with-" + dn + "-data:" + f, [{"k": "sample", "i": 5, "data": dn, "format": 2, "fields": {f: v}}])
    for en in ENVS:
        lo, hi = env_range(en)
        ymin, ymax = lo, lo + 0xFFFF          # what the 16-bit stored field can hold
        legacy8 = en in ("volume_envelope", "panning_envelope")
        lens = [0, 1, 4, 12, 13]
        for n in lens:
            pts = [[(i * 37) % 65536, lo + (i * 1001) % (hi - lo + 1)] for i in range(n)]
            add("env-points:" + en, [{"k": "env", "e": en, "fields": {"points": pts}}])
        for (x, y) in [(0, ymin), (65535, ymax), (1, lo), (65534, hi), (0x100, (lo + hi) // 2), (5, hi + 1), (5, lo + 0x7FFF)]:
            add("env-point-corner:" + en, [{"k": "env", "e": en, "fields": {"points": [[0, lo], [x, y]]}}])
        for bits in range(8):
            add("env-flags:" + en, [{"k": "env", "e": en, "fields": {"enable": bool(bits & 1), "sustain": bool(bits & 2), "loop": bool(bits & 4)}}])
        idx_vals = [0, 1, 3, 255] + ([] if legacy8 else [256, 65535])
        for f in ("sustain_point", "loop_start_point", "loop_end_point"):
            for v in idx_vals:
                add("env-index:" + en, [{"k": "env", "e": en, "fields": {f: v}}])
        for f in ("ctl_index", "gain_pct", "velocity"):
            for v in (0, 1, 100, 255):
                add("env-byte:" + en, [{"k": "env", "e": en, "fields": {f: v}}])
    for en in ENVS:
        add("env-rebind:" + en, [{"k": "env_rebind", "e": en}])
    add("rebind-lists", [dict(base), {"k": "rebind_lists"}, {"k": "map", "entries": [[4, 9]]}, {"k": "sample", "i": 2, "data": "odd"},
                         {"k": "env", "e": "effect2", "fields": {"loop": True, "sustain": True, "enable": False}}])
    for i in range(119):
        for v in (1, 127) if not ctx.thorough else (1, 2, 127, 255):
            add("note-map", [{"k": "map", "entries": [[i, v]]}])
    add("note-map", [{"k": "map", "entries": [[i, (i * 7 + 1) % 128] for i in range(119)]}])
    add("note-map", [{"k": "map", "entries": [[i, 0 if i < 100 else 3] for i in range(119)]}])
    add("note-map", [{"k": "map", "entries": [[i, 5 if i < 10 else 0] for i in range(119)]}])
    for n, vals in {"vibrato_type": [0, 1, 2], "vibrato_attack": [0, 1, 255], "vibrato_depth": [0, 1, 255],
                    "vibrato_rate": [0, 1, 63], "volume_fadeout": [0, 1, 8192],
                    "editor_cursor": [I32L, -1, 0, 1, 77, I32M], "editor_selected_size": [I32L, -1, 0, 1, 77, I32M]}.items():
        for v in vals:
            add("field:" + n, [{"k": "field", "n": n, "v": v}])
    for ty in ("Amplifier", "Reverb", "Filter", "Distortion"):
        add("effect", [{"k": "effect", "type": ty}])
        add("effect", [{"k": "effect", "type": ty, "devs": [deviate.module_devs(ty, ctx.seed)[3]]}])
    add("effect", [{"k": "effect", "type": "Amplifier"}, dict(base), {"k": "map", "entries": [[3, 0]]}])
    # the embedded effect may be ANY module type: each once with a MIDI binding on its first and last controller
    from rvmc import spec as _spec

    for ty, t in _spec.types().items():
        if ty in ("Output",) or not t.controllers:
            continue
        add("effect-of-every-type", [{"k": "effect", "type": ty, "bind": True}])
    # the record's own version words, alone and together with a full keyboard split / samples / an effect
    # (k = 2: a reader that interprets one part of the record depending on another)
    split = {"k": "map", "entries": [[i, (i * 5 + 1) % 128] for i in range(119)]}
    for f in ("version", "max_version"):
        for v in (0, 1, 4, 5, 6, 7, U32M):
            add("field:" + f, [{"k": "field", "n": f, "v": v}])
            add("pair:" + f + "+map", [{"k": "field", "n": f, "v": v}, split])
            add("pair:" + f + "+sample", [{"k": "field", "n": f, "v": v},
                                          {"k": "sample", "i": 7, "data": "odd",
                                           "fields": {"loop_type": 2, "start_pos": 7, "loop_start": 3, "loop_len": 5, "finetune": -3,
                                                      "panning": 9, "relative_note": 4, "rate": 8000, "volume": 33, "name": b"nm"}},
                                          {"k": "env", "e": "pitch_envelope", "fields": {"enable": True, "points": [[0, 0], [9, 100]]}}])
    for n, v in (("vibrato_type", 2), ("volume_fadeout", 8192), ("editor_cursor", -1)):
        add("pair:" + n + "+map", [{"k": "field", "n": n, "v": v}, split, {"k": "sample", "i": 127, "data": "frame"}])
    for d in deviate.module_devs("Sampler", ctx.seed, spikes="few", opt8="few"):
        if d["k"] in ("ctl", "opt"):
            add("controller-or-option", [{"k": "dev", "d": d}, dict(base)])
    return cases


# ----------------------------------------------------------------------------- legacy variants
def legacy_reference(record, which):
    """Envelope points from the documented legacy region of the instrument record."""
    base, cnt_off, rng_min = {"volume": (0x84, 0xE4, 0), "panning": (0xB4, 0xE5, -0x4000)}[which]
    n = record[cnt_off]
    pts = []
    for i in range(n):
        x, y = unpack("<HH", record[base + 4 * i: base + 4 * i + 4])
        pts.append([x, y * 0x200 + rng_min])
    return pts


def legacy_variants():
    return _legacy_build()[0]


def legacy_checks():
    vs = []
    n = 0
    variants, rec = _legacy_build()
    return _legacy_run(variants, rec)


_LEGACY_RECORDS = {}


def _legacy_build():
    path = os.path.join(treeenv.FIXTURES, "sampler.sunsynth")
    data = open(path, "rb").read()
    chunks = codec.parse_chunks(data)
    variants = {"as-is": data}
    # remove the envelope chunks (CHNM 0x102..0x108 with their CHDT/CHFF/CHFR)
    out, skip = [], False
    for cid, d in chunks:
        if cid == b"CHNM":
            (num,) = unpack("<I", d)
            skip = 0x102 <= num <= 0x108
        elif cid not in (b"CHDT", b"CHFF", b"CHFR"):
            skip = False
        if not skip:
            out.append((cid, d))
    variants["no-envelope-chunks"] = codec.build_chunks(out)
    rec_i = next(i for i, (cid, d) in enumerate(chunks) if cid == b"CHDT" and len(d) >= 0x100 and d[0xFC:0x100] == b"PMAS")
    rec = chunks[rec_i][1]
    alt = list(chunks)
    alt[rec_i] = (b"CHDT", rec[:0xFC] + b"XXXX" + rec[0x100:])
    variants["signature-altered"] = codec.build_chunks(alt)
    # pre-envelope records with DIFFERENT numbers of active volume and panning points (and distinct point values)
    from struct import pack_into

    ri_out = next(i for i, (cid, d) in enumerate(out) if cid == b"CHDT" and len(d) >= 0x100 and d[0xFC:0x100] == b"PMAS")
    for kv, kp in ((2, 5), (5, 2), (0, 3), (3, 0), (12, 1), (1, 12), (12, 12)):
        r2 = bytearray(rec)
        for i in range(12):
            pack_into("<HH", r2, 0x84 + 4 * i, 3 * i + 1, (i * 7 + 2) % 65)
            pack_into("<HH", r2, 0xB4 + 4 * i, 5 * i + 2, (i * 11 + 3) % 65)
        r2[0xE4], r2[0xE5] = kv, kp
        # documented offsets 0xE6..0xEB: volume sustain / loop start / loop end, then the same three for panning --
        # all six different, each inside its envelope's active points
        r2[0xE6:0xEC] = bytes([min(2, max(kv - 1, 0)), min(1, max(kv - 1, 0)), min(4, max(kv - 1, 0)),
                               min(1, max(kp - 1, 0)), min(2, max(kp - 1, 0)), min(3, max(kp - 1, 0))])
        o3 = list(out)
        o3[ri_out] = (b"CHDT", bytes(r2))
        name = f"no-envelope-chunks:vol{kv}-pan{kp}"
        variants[name] = codec.build_chunks(o3)
        _LEGACY_RECORDS[name] = bytes(r2)
    out2 = [c for c in out]
    ri2 = next(i for i, (cid, d) in enumerate(out2) if cid == b"CHDT" and len(d) >= 0x100 and d[0xFC:0x100] == b"PMAS")
    out2[ri2] = (b"CHDT", rec[:0xFC] + b"XXXX" + rec[0x100:])
    variants["no-envelopes+signature-altered"] = codec.build_chunks(out2)
    # the same legacy layouts with sample rates other than the default 44100 (a replay of the raw chunks must keep them)
    from struct import pack

    for name in ("signature-altered", "no-envelopes+signature-altered"):
        ch = codec.parse_chunks(variants[name])
        k = 0
        out3 = []
        for cid, d in ch:
            if cid == b"CHFR" and len(d) == 4:
                k += 1
                d = pack("<I", 8000 + 1000 * k)
            out3.append((cid, d))
        variants[name + ":rates"] = codec.build_chunks(out3)
    # records of OLDER layouts: cut after the version word (0x104), inside and after the 128-entry note map, before the
    # editor fields -- the entries the shorter record does not have come from the 96-entry map at 0x24 (documented as the
    # older form of the same table), the rest stay at sample 0
    for size in (0x104, 0x105, 0x110, 0x144, 0x164, 0x17A, 0x17B, 0x183, 0x184, 0x188, 0x18C):
        r3 = bytearray(rec)
        for i in range(96):
            r3[0x24 + i] = 1 + i % 5
        for i in range(128):
            r3[0x104 + i] = 6 + i % 3
        o4 = list(chunks)
        o4[rec_i] = (b"CHDT", bytes(r3[:size]))
        name = f"short-record:{size:#x}"
        variants[name] = codec.build_chunks(o4)
        _LEGACY_RECORDS[name] = bytes(r3[:size])
    # the instrument name is a BYTE field (old files hold names in 8-bit code pages): any bytes, in files with and without
    # envelope chunks
    for label, base_chunks, ri in (("as-is", chunks, rec_i), ("no-envelope-chunks", out, ri_out)):
        for nm in (b"\xcf\xf0\xe8\xe2\xe5\xf2", b"\xff\xfe name", bytes(range(0x80, 0x96))):
            r5 = bytearray(rec)
            r5[4:26] = nm.ljust(22, b"\0")
            o5 = list(base_chunks)
            o5[ri] = (b"CHDT", bytes(r5))
            variants[f"{label}:name-bytes-{nm[:2].hex()}"] = codec.build_chunks(o5)
    return variants, rec


def _legacy_run(variants, rec):
    vs = []
    n = 0
    for name, x in variants.items():
        n += 1
        case = {"legacy": name}
        key = {"legacy": name}
        try:
            o1 = C.load_bytes(x)
        except Exception as e:
            vs.append(C.viol("legacy-load-raises", dict(key, exc=type(e).__name__), {"error": repr(e)[:200]}, case))
            continue
        s1 = S.snapshot(o1)
        if "no-envelope" in name:
            for which, attr in (("volume", "volume_envelope"), ("panning", "panning_envelope")):
                ref = legacy_reference(_LEGACY_RECORDS.get(name, rec), which)
                got = [[a, b] for a, b in getattr(o1.module, attr).points]
                if got != ref:
                    vs.append(C.viol("legacy-envelope-conversion", dict(key, envelope=which), {"expected": ref, "observed": got}, case))
                r_ = _LEGACY_RECORDS.get(name, rec)
                off = 0xE6 if which == "volume" else 0xE9
                env = getattr(o1.module, attr)
                want_idx = [r_[off], r_[off + 1], r_[off + 2]]
                got_idx = [env.sustain_point, env.loop_start_point, env.loop_end_point]
                if got_idx != want_idx:
                    vs.append(C.viol("legacy-envelope-conversion", dict(key, envelope=which, part="sustain/loop indices"),
                                     {"expected": want_idx, "observed": got_idx}, case))
        if name.startswith("short-record"):
            r_ = _LEGACY_RECORDS[name]
            newmap = r_[0x104:0x184]
            got = [int(v) for v in s1["module"]["payload"]["note_samples"]]
            want = [newmap[i] if i < len(newmap) else (r_[0x24 + i] if i < 96 else 0) for i in range(len(got))]
            if got != want:
                bad = [i for i in range(len(got)) if got[i] != want[i]]
                vs.append(C.viol("short-record-note-map", dict(key), {"first_wrong_note": bad[0], "expected": want[bad[0]],
                                                                     "observed": got[bad[0]], "wrong": len(bad)}, case))
        try:
            y = C.save(o1)
            o2 = C.load_bytes(y)
        except Exception as e:
            vs.append(C.viol("legacy-resave-raises", dict(key, exc=type(e).__name__), {"error": repr(e)[:200]}, case))
            continue
        d = S.diff(s1, S.snapshot(o2))
        if d:
            vs.append(C.viol("legacy-data-lost-on-save", dict(key, path=C.first_diff_key(d)), {"diff": S.diff_text(d)}, case))
        if "name-bytes" in name:
            n1 = bytes(o1.module.instrument_name).rstrip(b"\0")
            n2 = bytes(o2.module.instrument_name).rstrip(b"\0")
            want_nm = bytes.fromhex(name.rsplit("-", 1)[1])
            if not n1.startswith(want_nm) or n1 != n2:
                vs.append(C.viol("instrument-name-bytes", dict(key), {"loaded": n1.hex(), "after_resave": n2.hex()}, case))
    return n, vs


def run_case(case):
    if case.get("poisoned"):
        return poisoned_saves()[1]
    if "legacy" in case:
        return [v for v in legacy_checks()[1] if v["case"] == case]
    return check_case(case)[0]


def _task(t):
    r = C.new_result()
    if t[0] == "legacy":
        n, vs = legacy_checks()
        n2, vs2 = poisoned_saves()
        r["evals"] = n + n2
        C.count(r, "poisoned_saves", n2)
        r["violations"] = vs + vs2
        return r
    for case in t[1]:
        vs, b = check_case(case)
        r["evals"] += 1
        r["digests"].add(C.h8(b))
        if len(r["violations"]) < 40:
            r["violations"] += vs
    r["sample"] = t[1][-1]
    return r


def run(ctx):
    treeenv.setup()
    cases = object_cases(ctx)
    tasks = [("legacy",)] + [("cases", cases[i:i + 25]) for i in range(0, len(cases), 25)]
    from rvmc.runner import rotate

    agg = C.Agg()
    for r in ctx.pmap(_task, rotate(tasks, ctx.seed)):
        agg.merge(r)
    ctx.add(agg.violations)
    labels = {}
    for c in cases:
        labels[c["label"].split(":")[0]] = labels.get(c["label"].split(":")[0], 0) + 1
    return {
        "evaluations": agg.evals,
        "distinct_nontrivial": max(0, len(agg.digests) - 1),
        "rule": "sampler objects enumerated as in the module docstring; each through Synth write/read, clone() and Project "
                "write/read; 4 legacy variants of the fixture; distinct_nontrivial = distinct written files other than the default",
        "exhaustive": True, "cases_by_kind": labels,
        "samples": agg.samples,
    }
