"""Self test of the E-BFS explorer on a toy system with a planted depth-3 bug.

    /venv/bin/python -m selftest.test_explorer        (from /verif)

The toy is a bounded counter pair with ops inc_a / inc_b / swap / reset; the planted bug makes
`swap` lose one unit when a == 2 and b == 1, which needs 3 operations to reach.  The explorer must
(1) find it, (2) at depth exactly 3 (BFS => the reported history is a shortest one), (3) not find
anything on the correct toy, (4) visit exactly the reachable state count, with and without the
save/restore shortcut, and (5) give identical results for different expansion orders.
"""
import sys

from rvmc import explorer
from rvmc.runner import Ctx


class Toy:
    def __init__(self, buggy, with_restore):
        self.buggy = buggy
        self.ops = [{"op": "inc_a"}, {"op": "inc_b"}, {"op": "swap"}, {"op": "reset"}]
        if with_restore:
            self.save = lambda L: dict(L)
            self.restore = lambda L, s: (L.clear(), L.update(s))
            self.model_save = lambda m: dict(m)
            self.model_restore = lambda s: dict(s)

    def fresh(self):
        return {"a": 0, "b": 0}

    def apply(self, L, op):
        k = op["op"]
        if k == "inc_a":
            L["a"] = min(3, L["a"] + 1)
        elif k == "inc_b":
            L["b"] = min(3, L["b"] + 1)
        elif k == "swap":
            if self.buggy and L["a"] == 2 and L["b"] == 1:
                L["a"], L["b"] = L["b"], L["a"] - 1          # planted: loses one unit
            else:
                L["a"], L["b"] = L["b"], L["a"]
        else:
            L["a"] = L["b"] = 0
        return "ok"

    def canon(self, L):
        return (L["a"], L["b"])

    def invariant(self, L):
        return []

    def model_fresh(self):
        return {"a": 0, "b": 0}

    def model_apply(self, m, op):
        Toy(False, False).apply(m, op)
        return "ok"

    def compare(self, L, m, op, outcome, expected):
        if (L["a"], L["b"]) != (m["a"], m["b"]):
            return [{"subcheck": "toy-differs-from-model", "key": {"op": op["op"]}, "detail": {"impl": dict(L), "model": dict(m)}}]
        return []


def main():
    ok = True

    def check(cond, msg):
        nonlocal ok
        print(("ok   " if cond else "FAIL ") + msg)
        ok = ok and cond

    for with_restore in (False, True):
        for order in ([0, 1, 2, 3], [3, 2, 1, 0]):
            ctx = Ctx("SELFTEST", "quick", 0)
            good = explorer.bfs(ctx, Toy(False, with_restore), 8, op_indices=order, chunk=4)
            ctx.close()
            check(good.states == 16 and not good.violations,
                  f"correct toy: 16 reachable states, no violation (restore={with_restore}, order={order}) -> {good.states}")
            ctx = Ctx("SELFTEST", "quick", 0)
            bad = explorer.bfs(ctx, Toy(True, with_restore), 8, op_indices=order, chunk=4)
            ctx.close()
            lens = sorted(len(v["case"]["history"]) for v in bad.violations)
            check(bool(bad.violations) and lens[0] == 4,
                  f"planted bug found, shortest counterexample has 3 setup ops + the failing swap (restore={with_restore}, order={order}) -> {lens[:1]}")
            ctx = Ctx("SELFTEST", "quick", 0)
            shallow = explorer.bfs(ctx, Toy(True, with_restore), 3, op_indices=order, chunk=4)
            ctx.close()
            check(not shallow.violations, "bug is NOT reported below its depth (depth bound 3)")
    print("== OK" if ok else "== FAILED")
    return 0 if ok else 1


if __name__ == "__main__":
    sys.exit(main())
