"""E-FLT: fault injection at the environment seam of a load (file object calls)."""
import io


class InjectedFault(OSError):
    pass


class FaultyFile:
    """File-like over bytes that raises InjectedFault at the k-th call of a chosen method.

    Counts read / seek / tell calls; `fail_at = (method, k)` (0-based index per method)."""

    def __init__(self, data, fail_at=None):
        self._f = io.BytesIO(data)
        self.fail_at = fail_at
        self.calls = {"read": 0, "seek": 0, "tell": 0, "close": 0}
        self.close_calls = 0

    def _hit(self, name):
        k = self.calls[name]
        self.calls[name] = k + 1
        if self.fail_at is not None and self.fail_at[0] == name and self.fail_at[1] == k:
            raise InjectedFault(f"injected fault at {name} #{k}")

    def read(self, n=-1):
        self._hit("read")
        return self._f.read(n)

    def seek(self, *a):
        self._hit("seek")
        return self._f.seek(*a)

    def tell(self):
        self._hit("tell")
        return self._f.tell()

    def close(self):
        self.close_calls += 1
        self._f.close()          # the descriptor is released even when the close call then reports an error
        self._hit("close")

    @property
    def closed(self):
        return self._f.closed

    def __enter__(self):
        return self

    def __exit__(self, *a):
        self.close()
