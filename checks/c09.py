"""C09 — controller assignment enforces declared domains; defaults match the spec.

Complete boundary enumeration: 43 types x 502 specified controllers (list taken from the YAML,
not from the classes) x {min-1, min, min+1, interior, max-1, max, max+1} / every enum member
(as member, int value, name) + invalid names/values / booleans; x {strict, lenient};
x {attribute assignment, constructor keyword}; and every ordered PAIR (v1, v2) of the alphabet
(history of length 2) so "the previous value remains" is checked against every previous value.
"""
from enum import Enum

from checks import common as C
from rvmc import deviate, snapshot as S, spec, treeenv

PROPERTY = "C09"
LEVEL = "exploration"
ASSUMPTIONS = [
    "the YAML specification is the ground truth for defaults and domains",
    "unit-dependent ranges are not 'fixed ranges': out-of-range values for them are only required not to corrupt anything",
    "values are boundary-complete per controller, not every integer (C10 enumerates every integer for the encodings)",
]


def cls_of(tkey):
    import rv.modules as M

    return getattr(M, tkey)


def expect_default(c):
    if c.kind == "enum":
        return c.members[c.default]
    if c.kind == "bool":
        return bool(c.default)
    return c.default


def as_int(v):
    return int(v.value) if isinstance(v, Enum) else int(v)


def alphabet(c, seed, unit=None):
    """[(label, assigned value, in_domain, expected int after success)]"""
    out = []
    if c.kind in ("range", "compact", "no_offset", "dependent"):
        lo, hi = (c.min, c.max) if c.kind != "dependent" else c.ranges[unit]
        for v in deviate.range_alphabet(lo, hi, seed):
            out.append(("in", v, True, v))
        out.append(("below", lo - 1, False, None))
        out.append(("above", hi + 1, False, None))
        out.append(("far-above", hi + 100000, False, None))
    elif c.kind == "enum":
        for name, val in c.members.items():
            out.append(("value", val, True, val))
            out.append(("name", spec.enumname(name), True, val))
            out.append(("member", ("member", val), True, val))
        vals = set(c.members.values())
        out.append(("bad-value", max(vals) + 1, False, None))
        out.append(("bad-value", -1 if -1 not in vals else min(vals) - 1, False, None))
        out.append(("bad-name", "no_such_member", False, None))
        out.append(("bad-name", "", False, None))
    elif c.kind == "bool":
        for v in (False, True, 0, 1):
            out.append(("in", v, True, int(v)))
    return out


def resolve(mod, c, v):
    if isinstance(v, tuple) and v[0] == "member":
        return getattr(type(mod), c.enum)(v[1])
    return v


def check_controller(tkey, cname, seed, lenient, unit=None, attached=False):
    """All single assignments and all ordered pairs for one controller in one mode.  attached: the module lives in a
    Project (propagation to the project / change callbacks run in that context only)."""
    from rv.errors import ControllerValueError, override_raise_controller_value_errors

    t = spec.types()[tkey]
    c = next(x for x in t.controllers if x.name == cname)
    by_name = {x.name: x for x in t.controllers}
    cls = cls_of(tkey)
    vs = []
    n = 0
    key = {"type": tkey, "controller": c.name}
    if attached:
        key["attached"] = True
    fixed = c.kind in ("range", "compact", "no_offset")

    def fresh():
        m = cls()
        if attached:
            import rv.api as rv
            rv.Project().attach_module(m)
        if unit is not None:
            u = by_name[c.depends_on]
            setattr(m, u.attr, u.members[unit])
        return m

    mixed = lenient == "mixed"      # first assignment lenient (may store out-of-range), second strict

    def assign(m, v, second=False):
        """returns outcome string"""
        lenient_now = (not second) if mixed else lenient
        try:
            if lenient_now:
                with override_raise_controller_value_errors(False):
                    setattr(m, c.attr, resolve(m, c, v))
            else:
                setattr(m, c.attr, resolve(m, c, v))
            return "ok"
        except ControllerValueError:
            return "ControllerValueError"
        except Exception as e:
            return "other:" + type(e).__name__

    alpha = alphabet(c, seed, unit)
    for (l1, v1, ok1, e1) in alpha:
        for (l2, v2, ok2, e2) in [(None, None, None, None)] + alpha:
            n += 1
            case = {"type": tkey, "controller": c.name, "lenient": lenient, "unit": unit, "attached": attached,
                    "seq": [v1] if l2 is None else [v1, v2]}
            m = fresh()
            if mixed and l2 is None:
                continue
            o1 = assign(m, v1)
            if ok1:
                got = getattr(m, c.attr)
                if o1 != "ok" or as_int(got) != e1:
                    vs.append(C.viol("in-range-not-stored", dict(key, label=l1, lenient=lenient),
                                     {"assigned": v1, "outcome": o1, "read": repr(got)}, case))
                    continue
                if c.kind == "enum" and not isinstance(got, Enum):
                    vs.append(C.viol("enum-stores-non-member", dict(key, label=l1), {"read": repr(got)}, case))
            else:
                if lenient is False and fixed and o1 != "ControllerValueError":
                    vs.append(C.viol("out-of-range-not-rejected", dict(key, label=l1),
                                     {"assigned": v1, "outcome": o1, "read": repr(getattr(m, c.attr))}, case))
                if lenient and fixed and o1 != "ok":
                    vs.append(C.viol("lenient-mode-raises", dict(key, label=l1), {"assigned": v1, "outcome": o1}, case))
                if c.kind == "enum":
                    got = getattr(m, c.attr)
                    if not isinstance(got, Enum):
                        vs.append(C.viol("enum-stores-non-member", dict(key, label=l1), {"read": repr(got)}, case))
            if l2 is None:
                continue
            before = S.module(m, in_project=False) if not ok2 else None
            prev = getattr(m, c.attr)
            o2 = assign(m, v2, second=True)
            got = getattr(m, c.attr)
            if ok2:
                if o2 != "ok" or as_int(got) != e2:
                    vs.append(C.viol("in-range-not-stored", dict(key, label=l2, lenient=lenient, second=True),
                                     {"first": v1, "assigned": v2, "outcome": o2, "read": repr(got)}, case))
            else:
                rejected = o2 != "ok"
                if (mixed or not lenient) and fixed and o2 != "ControllerValueError":
                    vs.append(C.viol("out-of-range-not-rejected", dict(key, label=l2, second=True),
                                     {"first": v1, "assigned": v2, "outcome": o2, "read": repr(got)}, case))
                if rejected:
                    after = S.module(m, in_project=False)
                    d = S.diff(before, after)
                    if d or got != prev:
                        vs.append(C.viol("failed-assignment-changes-state", dict(key, label=l2),
                                         {"first": v1, "assigned": v2, "diff": S.diff_text(d), "prev": repr(prev),
                                          "now": repr(got)}, case))
                if c.kind == "enum" and not isinstance(got, Enum):
                    vs.append(C.viol("enum-stores-non-member", dict(key, label=l2), {"read": repr(got)}, case))
    return n, vs


def check_defaults_and_ctor(tkey, seed):
    from rv.errors import ControllerValueError

    t = spec.types()[tkey]
    cls = cls_of(tkey)
    vs = []
    n = 0
    m = cls()
    for c in t.controllers:
        n += 1
        key = {"type": tkey, "controller": c.name}
        case = {"type": tkey, "controller": c.name, "default": True}
        got = getattr(m, c.attr)
        exp = expect_default(c)
        okv = as_int(got) == int(exp) if got is not None else False
        okt = (isinstance(got, Enum) and type(got).__name__ == c.enum) if c.kind == "enum" else \
              (type(got) is bool) if c.kind == "bool" else (type(got) is int)
        if not okv:
            vs.append(C.viol("default-vs-spec", key, {"expected": exp, "observed": repr(got)}, case))
        elif not okt:
            vs.append(C.viol("default-type", key, {"expected_kind": c.kind, "observed": repr(got)}, case))
        if c.kind == "dependent":
            continue
        for (label, v, ok, e) in alphabet(c, seed):
            n += 1
            case = {"type": tkey, "controller": c.name, "ctor": v}
            try:
                if isinstance(v, tuple):
                    v = getattr(cls, c.enum)(v[1])
                m2 = cls(**{c.attr: v})
                out = "ok"
            except ControllerValueError:
                out = "ControllerValueError"
            except Exception as ex:
                out = "other:" + type(ex).__name__
            if ok:
                if out != "ok" or as_int(getattr(m2, c.attr)) != e:
                    vs.append(C.viol("ctor-in-range-not-stored", dict(key, label=label),
                                     {"value": v, "outcome": out}, case))
                elif c.kind == "enum" and not isinstance(getattr(m2, c.attr), Enum):
                    vs.append(C.viol("enum-stores-non-member", dict(key, label=label, ctor=True), {}, case))
            else:
                if c.kind in ("range", "compact", "no_offset") and out != "ControllerValueError":
                    vs.append(C.viol("ctor-out-of-range-not-rejected", dict(key, label=label),
                                     {"value": v, "outcome": out}, case))
                if c.kind == "enum" and out == "ok":
                    vs.append(C.viol("ctor-invalid-enum-accepted", dict(key, label=label), {"value": v}, case))
    return n, vs


def ctor_values(c, seed):
    """Two in-domain non-default values per controller for the constructor-pair product."""
    if c.kind in ("range", "compact", "no_offset"):
        vals = [v for v in deviate.range_alphabet(c.min, c.max, seed) if v != c.default]
        return [(v, v) for v in ([vals[0], vals[-1]] if len(vals) > 1 else vals)]
    if c.kind == "enum":
        mem = [(spec.enumname(n), v) for n, v in c.members.items() if n != c.default]
        out = mem[:1] + mem[-1:] if len(mem) > 1 else mem
        return [(out[0][0], out[0][1])] + [(v, v) for _n, v in out[1:]]     # one by name, one by value
    if c.kind == "bool":
        return [(not bool(c.default), int(not bool(c.default)))]
    return []


# constructor keywords that are NOT controllers (payload tables etc.); each controller keyword is also combined with them
EXTRA_CTOR_KW = {
    "SpectraVoice": {"harmonics": [[(1000, 100, 5, 1)], [(1000, 100, 5, 1), (2000, 50, 9, 2)],
                                   [(100 * i + 100, 10 * i, i, i % 14) for i in range(16)]]},
    "Generator": {"samples": [[], [5] * 32]},
    "AnalogGenerator": {"samples": [[], [5] * 32]},
    "Fmx": {"custom_waveform_values": [[0.5] * 256]},
    "MultiSynth": {"nv_values": [[7] * 128], "vv_values": [[9] * 257]},
    "MultiCtl": {"curve": [[3] * 257], "mappings": [[(0, 100, 2)], [(0, 100, 2), (5, 7, 1)]]},
    "WaveShaper": {"values": [[11] * 256]},
    "VorbisPlayer": {"data": [b"OggS123"]},
    "Sampler": {"instrument_name": [b"ins"]},
}


def ctor_with_extras(tkey, seed):
    """Every controller keyword (two in-domain values) together with every non-controller constructor keyword of the
    type: the controller must read back exactly the value given."""
    t = spec.types()[tkey]
    cls = cls_of(tkey)
    vs, n = [], 0
    for xname, xvals in EXTRA_CTOR_KW.get(tkey, {}).items():
        for xi, xv in enumerate(xvals):
            for c in t.controllers:
                if c.kind == "dependent":
                    continue
                for (va, ea) in ctor_values(c, seed):
                    n += 1
                    case = {"type": tkey, "ctor_extra": [xname, xi, c.name]}
                    try:
                        import contextlib
                        import io

                        with contextlib.redirect_stdout(io.StringIO()):     # AnalogGenerator(samples=...) prints its samples
                            m = cls(**{xname: xv, c.attr: va})
                    except Exception as ex:
                        vs.append(C.viol("ctor-pair-rejected", {"type": tkey, "a": xname, "b": c.name},
                                         {"values": [repr(xv)[:60], va], "exc": type(ex).__name__}, case))
                        continue
                    got = getattr(m, c.attr)
                    if as_int(got) != ea:
                        vs.append(C.viol("ctor-pair-not-stored", {"type": tkey, "a": xname, "b": c.name},
                                         {"values": [repr(xv)[:60], va], "read": repr(got)}, case))
    return n, vs


def ctor_dependent(tkey, seed):
    """Unit-dependent controllers as constructor keywords: alone (default unit) and together with the unit keyword, for
    every unit -- in-range values of THAT unit must be stored exactly (several controllers may share one unit)."""
    t = spec.types()[tkey]
    cls = cls_of(tkey)
    by_name = {x.name: x for x in t.controllers}
    vs, n = [], 0
    deps = [c for c in t.controllers if c.kind == "dependent"]
    for c in deps:
        u = by_name[c.depends_on]
        default_unit = next(k for k, v in u.members.items() if k == u.default)
        for unit, (lo, hi) in c.ranges.items():
            for v in deviate.range_alphabet(lo, hi, seed):
                for with_unit_kw in ((True, False) if unit == default_unit else (True,)):
                    for others in ([], [d for d in deps if d is not c and d.depends_on == c.depends_on]):
                        n += 1
                        kw = {c.attr: v}
                        if with_unit_kw:
                            kw[u.attr] = u.members[unit]
                        for d in others:
                            kw[d.attr] = d.ranges[unit][1]
                        case = {"type": tkey, "ctor_dependent": [c.name, unit]}
                        try:
                            m = cls(**kw)
                        except Exception as ex:
                            vs.append(C.viol("ctor-in-range-not-stored", {"type": tkey, "controller": c.name, "unit": unit, "label": "dependent"},
                                             {"kw": {k: int(getattr(x, "value", x)) for k, x in kw.items()}, "outcome": type(ex).__name__}, case))
                            continue
                        got = getattr(m, c.attr)
                        if as_int(got) != v:
                            vs.append(C.viol("ctor-in-range-not-stored", {"type": tkey, "controller": c.name, "unit": unit, "label": "dependent"},
                                             {"kw": {k: int(getattr(x, "value", x)) for k, x in kw.items()}, "read": repr(got)}, case))
    return n, vs[:10]


def ctor_pairs(tkey, seed, only=None):
    """Constructor keywords in COMBINATION: every unordered pair of controllers of the type x two in-domain values
    each; both must read back exactly (a constructor that post-processes one keyword when another is present --
    e.g. a selector plus the value it selects -- is only visible in pairs)."""
    t = spec.types()[tkey]
    cls = cls_of(tkey)
    vs = []
    n = 0
    ctls = [c for c in t.controllers if c.kind != "dependent"]
    for i, a in enumerate(ctls):
        for b in ctls[i + 1:]:
            if only and [a.name, b.name] != only[:2]:
                continue
            for (va, ea) in ctor_values(a, seed):
                for (vb, eb) in ctor_values(b, seed):
                    n += 1
                    case = {"type": tkey, "ctor_pair": [a.name, b.name]}
                    try:
                        m = cls(**{a.attr: va, b.attr: vb})
                    except Exception as ex:
                        vs.append(C.viol("ctor-pair-rejected", {"type": tkey, "a": a.name, "b": b.name},
                                         {"values": [va, vb], "exc": type(ex).__name__}, case))
                        continue
                    ga, gb = getattr(m, a.attr), getattr(m, b.attr)
                    if as_int(ga) != ea or as_int(gb) != eb:
                        vs.append(C.viol("ctor-pair-not-stored", {"type": tkey, "a": a.name, "b": b.name},
                                         {"values": [va, vb], "read": [repr(ga), repr(gb)]}, case))
    return n, vs


def lenient_load(tkey):
    """Lenient mode as the READER uses it: a file whose stored value for a fixed-range controller is outside the
    range (min-1, max+1, -1, far above) loads without an exception, the controller keeps a value, and saving
    writes the same stored word back (nothing is silently re-interpreted, e.g. as an unsigned number)."""
    from struct import pack, unpack

    import rv.api as rv
    from rvref import codec

    t = spec.types()[tkey]
    if tkey == "Output" or not t.controllers:
        return 0, []
    cls = cls_of(tkey)
    base = codec.parse_chunks(C.save(rv.Synth(cls())))
    cval_pos = [i for i, (cid, _d) in enumerate(base) if cid == b"CVAL"]
    vs = []
    n = 0
    for ci, c in enumerate(t.controllers):
        if c.kind not in ("range", "compact", "no_offset") or ci >= len(cval_pos):
            continue
        off = c.min if (c.min < 0 and c.kind != "no_offset") else 0
        for raw in sorted({c.min - off - 1, c.max - off + 1, -1, c.max - off + 100000, -70000}):
            if c.min - off <= raw <= c.max - off:
                continue
            n += 1
            chunks = list(base)
            chunks[cval_pos[ci]] = (b"CVAL", pack("<i", raw))
            case = {"type": tkey, "lenient_load": [c.name, raw]}
            key = {"type": tkey, "controller": c.name, "side": "below" if raw < c.min - off else "above"}
            try:
                o = C.load_bytes(codec.build_chunks(chunks))
            except Exception as e:
                vs.append(C.viol("lenient-load-raises", dict(key, exc=type(e).__name__), {"raw": raw, "error": repr(e)[:200]}, case))
                continue
            try:
                again = codec.parse_chunks(C.save(o))
                (got,) = unpack("<i", again[cval_pos[ci]][1])
            except Exception as e:
                vs.append(C.viol("lenient-load-then-save-raises", dict(key, exc=type(e).__name__), {"raw": raw, "error": repr(e)[:200]}, case))
                continue
            if got != raw:
                vs.append(C.viol("lenient-load-changes-stored-value", key, {"stored": raw, "resaved": got,
                                                                            "value": repr(getattr(o.module, c.attr))}, case))
    return n, vs


def first_use_table(mode):
    """Defaults reported by cls() in THIS process, where the first-ever instance of each type was built
    with constructor keywords (mode 'kwargs-first'), through a project (mode 'new-module-first') or plainly."""
    import rv.api as rv

    out = {}
    for tkey, t in spec.types().items():
        cls = cls_of(tkey)
        kw = {}
        for c in t.controllers:
            if c.kind in ("range", "compact", "no_offset") and c.max != c.default:
                kw[c.attr] = c.max
            elif c.kind == "bool":
                kw[c.attr] = not c.default
            elif c.kind == "enum":
                vals = sorted(set(c.members.values()))
                kw[c.attr] = vals[-1] if c.members[c.default] != vals[-1] else vals[0]
        if tkey != "Output":
            if mode == "kwargs-first":
                cls(**kw)
            elif mode == "new-module-first":
                rv.Project().new_module(cls, **kw)
        m = cls()
        out[tkey] = {c.name: as_int(getattr(m, c.attr)) for c in t.controllers}
    return out


def first_use_independence():
    """A fresh module's defaults must not depend on how the first instance of its type was created in the
    process: three fresh interpreters (plain / kwargs first / new_module first), compared with the spec."""
    import json
    import os
    import subprocess
    import sys

    vs = []
    n = 0
    env = dict(os.environ, PYTHONPATH=treeenv.VERIF, PYTHONHASHSEED="0")
    for mode in ("plain", "kwargs-first", "new-module-first"):
        code = ("import json; from rvmc import treeenv; treeenv.setup(); from checks import c09; "
                f"print(json.dumps(c09.first_use_table({mode!r})))")
        r = subprocess.run([sys.executable, "-c", code], capture_output=True, text=True, env=env, cwd=treeenv.VERIF)
        if r.returncode != 0:
            return n, [C.viol("first-use-run-failed", {"mode": mode}, {"stderr": r.stderr[-300:]}, {"first_use": True})]
        tb = json.loads(r.stdout.strip().splitlines()[-1])
        for tkey, t in spec.types().items():
            for c in t.controllers:
                n += 1
                exp = int(expect_default(c))
                if tb[tkey][c.name] != exp:
                    vs.append(C.viol("default-depends-on-first-use", {"type": tkey, "controller": c.name, "mode": mode},
                                     {"expected": exp, "observed": tb[tkey][c.name]}, {"first_use": True}))
    return n, vs[:20]


def run_case(case):
    if case.get("first_use"):
        return first_use_independence()[1]
    if case.get("lenient_load"):
        return [v for v in lenient_load(case["type"])[1] if v["case"]["lenient_load"][0] == case["lenient_load"][0]]
    if case.get("default") or "ctor" in case:
        _n, vs = check_defaults_and_ctor(case["type"], 0)
        return [v for v in vs if v["key"].get("controller") == case["controller"]]
    if case.get("ctor_dependent"):
        return [v for v in ctor_dependent(case["type"], 0)[1] if v["case"]["ctor_dependent"] == case["ctor_dependent"]]
    if case.get("ctor_extra"):
        return [v for v in ctor_with_extras(case["type"], 0)[1] if v["case"]["ctor_extra"] == case["ctor_extra"]]
    if case.get("ctor_pair"):
        return ctor_pairs(case["type"], 0, only=case["ctor_pair"])[1]
    if case.get("after_use"):
        from checks import c13

        c13.workout()
    _n, vs = check_controller(case["type"], case["controller"], 0, case["lenient"], case.get("unit"),
                              case.get("attached", False))
    if case.get("after_use"):
        vs = [dict(v, case=dict(v["case"], after_use=True), key=dict(v["key"], after_use=True)) for v in vs]
    return vs


def _task(t):
    r = C.new_result()
    if t[0] == "ctorpairs":
        n, vs = ctor_pairs(t[1], t[2])
        n2, vs2 = ctor_with_extras(t[1], t[2])
        n3, vs3 = ctor_dependent(t[1], t[2])
        n, vs = n + n2 + n3, vs + vs2 + vs3
        C.count(r, "ctor_pairs", n)
        r["sample"] = {"type": t[1], "ctor_pairs": True}
    elif t[0] == "defaults":
        n, vs = check_defaults_and_ctor(t[1], t[2])
        n2, vs2 = lenient_load(t[1])
        n += n2
        vs = vs + vs2
        C.count(r, "lenient_loads", n2)
        r["sample"] = {"type": t[1], "defaults_and_ctor": True}
    elif t[0] == "after_use":
        # the domains are enforced the same way AFTER the library has been used the way the other checks use it (files of
        # every fixture loaded and saved, MetaModule controllers mapped onto every kind of target, lenient loads ...)
        from checks import c13

        c13.workout()
        n, vs = 0, []
        for tkey in t[1]:
            for c in spec.types()[tkey].controllers:
                for u in (list(c.ranges) if c.kind == "dependent" else [None]):
                    k, v = check_controller(tkey, c.name, t[2], False, u, False)
                    n += k
                    vs += [dict(x, case=dict(x["case"], after_use=True), key=dict(x["key"], after_use=True)) for x in v]
        C.count(r, "after_use", n)
    else:
        _k, tkey, cname, seed, lenient, unit, attached = t
        n, vs = check_controller(tkey, cname, seed, lenient, unit, attached)
        r["sample"] = {"type": tkey, "controller": cname, "lenient": lenient, "unit": unit, "attached": attached}
        C.count(r, "controller_modes")
    r["evals"] = n
    r["violations"] = vs
    return r


def run(ctx):
    treeenv.setup()
    from rv import errors

    flag_before = errors.RAISE_CONTROLLER_VALUE_ERRORS
    tasks = []
    nctl = 0
    for tkey, t in spec.types().items():
        tasks.append(("defaults", tkey, ctx.seed))
        for c in t.controllers:
            nctl += 1
            units = list(c.ranges) if c.kind == "dependent" else [None]
            for u in units:
                for lenient in (False, True, "mixed"):
                    tasks.append(("ctl", tkey, c.name, ctx.seed, lenient, u, False))
                tasks.append(("ctl", tkey, c.name, ctx.seed, False, u, True))
        tasks.append(("ctorpairs", tkey, ctx.seed))
    tkeys = list(spec.types())
    for g in range(8):
        tasks.insert(g * 50, ("after_use", tkeys[g::8], ctx.seed))
    agg = C.Agg()
    for r in ctx.pmap(_task, tasks, chunksize=4):
        agg.merge(r)
    ctx.add(agg.violations)
    n_fu, v_fu = first_use_independence()
    ctx.add(v_fu)
    agg.evals += n_fu
    if errors.RAISE_CONTROLLER_VALUE_ERRORS is not flag_before:
        ctx.add([C.viol("strictness-flag-leaked", {}, {}, None)])
    return {
        "evaluations": agg.evals,
        "distinct_nontrivial": agg.evals - len(tasks),
        "rule": "every specified controller x boundary-complete alphabet (in and out of domain) as single assignment and "
                "as every ordered pair, strict and lenient, attribute and constructor path; each (controller, mode, "
                "sequence) is distinct by construction; non-trivial = sequences beyond the bare default read",
        "exhaustive": True,
        "first_use_comparisons": n_fu, "lenient_loads_of_out_of_range_files": agg.counters.get("lenient_loads", 0), "types": len(spec.types()), "controllers": nctl, "controller_mode_tasks": agg.counters.get("controller_modes", 0), "strict_sequences_repeated_after_use": agg.counters.get("after_use", 0), "constructor_keyword_pairs": agg.counters.get("ctor_pairs", 0),
        "samples": agg.samples,
    }
