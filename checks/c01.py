"""C01 — project save/load round trip preserves the whole project.

E-DEV over single-module projects (every type x every deviation), project settings, names,
pattern lists and note cells; plus an E-BFS "builder machine" (attach modules / empty slots /
patterns, connect, set notes / fields / controllers) with the round trip evaluated in EVERY
reached state.  Oracle: snapshot(load(save(p))) == snapshot(p) under DESIGN §4, and load must
not raise.
"""
from checks import common as C
from rvmc import deviate, explorer, snapshot as S, treeenv

PROPERTY = "C01"
LEVEL = "model_checking"
ASSUMPTIONS = [
    "bounded: k deviations per project (k=1 quick, k=2 thorough for module pairs), builder histories up to the reported depth",
    "sunvox_version is the writing software's version (N9) and is not varied; trailing empty module positions are unobservable (N1)",
    "module names compare up to the longest prefix whose UTF-8 form fits 32 bytes (property text)",
]

I32_MIN, I32_MAX, U32_MAX = -2**31, 2**31 - 1, 2**32 - 1
U32 = [0, 1, 2**31 - 1, 2**31, U32_MAX]
I32 = [I32_MIN, -1, 0, 1, I32_MAX]
PROJECT_FIELDS = {
    "flags": U32, "initial_bpm": U32, "initial_tpl": U32, "time_grid": U32, "time_grid2": U32,
    "global_volume": U32, "modules_scale": U32, "modules_zoom": U32,
    "modules_x_offset": I32, "modules_y_offset": I32, "modules_layer_mask": U32,
    "modules_current_layer": U32, "timeline_position": I32, "restart_position": I32,
    "selected_module": U32, "selected_generator": [-1, 0, 1, 255, I32_MAX],
    "current_pattern": U32, "current_track": U32, "current_line": U32,
    "receive_sync_midi": list(range(8)), "receive_sync_other": list(range(8)),
    "based_on_version": [[0, 0, 0, 0], [255, 255, 255, 255], [1, 9, 4, 0], [2, 1, 2, 1], [1, 2, 3, 4]],
}
FOLLOW = ["x", "é", "中", "😀"]  # UTF-8 widths 1, 2, 3, 4


def name_alphabet():
    out = []
    for k in range(0, 36):
        for ch in FOLLOW:
            out.append("a" * k + ch)
    out.append("中" * 10 + "😀" * 4)
    out.append("ééééééééééééééééé")  # 17 x 2 bytes = 34
    return out


# ----------------------------------------------------------------------------- oracle
def roundtrip(p, case, part, extra_key=None):
    """snapshot(load(save(p))) == snapshot(p)."""
    s0 = C.norm_project_for_compare(S.project(p))
    key = {"part": part}
    key.update(extra_key or {})
    try:
        b = C.save(p)
    except Exception as e:
        return [C.viol("save-raises", dict(key, exc=type(e).__name__), {"error": repr(e)}, case)], b""
    try:
        p2 = C.load_bytes(b)
    except Exception as e:
        return [C.viol("written-file-unloadable", dict(key, exc=type(e).__name__), {"error": repr(e)}, case)], b
    d = S.diff(s0, S.project(p2))
    if d:
        return [C.viol("roundtrip", dict(key, path=C.first_diff_key(d)), {"diff": S.diff_text(d)}, case)], b
    return C.api_paths_agree(p, b, key, case, files=(part in ("field", "name", "metamodules"))), b


# ----------------------------------------------------------------------------- case builders
def build_case(case, p=None):
    import rv.api as rv

    kind = case["kind"]
    p = p or rv.Project()
    if kind == "combo":
        for part in case["parts"]:
            build_case(part, p)
    elif kind == "module":
        for tkey, devs in case["mods"]:
            p.attach_module(deviate.build(tkey, devs))
        for f, t in case.get("links", []):
            p.connect(p.modules[f], p.modules[t])
    elif kind == "field":
        v = case["v"]
        setattr(p, case["n"], tuple(v) if isinstance(v, list) else v)
    elif kind == "name":
        which, s = case["which"], case["s"]
        if which == "project":
            p.name = s
        elif which == "module":
            p.new_module(rv.m.Amplifier, name=s)
        elif which == "midi_out":
            p.new_module(rv.m.Amplifier, midi_out_name=s)
        elif which == "pattern":
            p.attach_pattern(rv.Pattern(name=s, tracks=1, lines=1))
        elif which == "metamodule_inner":
            mm = p.new_module(rv.m.MetaModule)
            mm.project.new_module(rv.m.Amplifier, name=s)
            mm.project.name = s
    elif kind == "patterns":
        for slot in case["slots"]:
            pat = make_pattern(slot)
            p.attach_pattern(pat)
            if slot and slot.get("then_shape"):
                # ORDER of calls: attached first (grid never touched), shaped afterwards
                pat.lines, pat.tracks = slot["then_shape"]
                for (line, track, cell) in slot.get("then_cells", []):
                    import rv.api as rv

                    n = pat.data[line][track]
                    n.note, n.vel, n.module, n.ctl, n.val = rv.NOTECMD(cell[0]), cell[1], cell[2], cell[3], cell[4]
    elif kind == "metamodules":
        # several MetaModules with DIFFERENT user-controller counts in one project (and, before it, a
        # throw-away project saved with the first count only): per-instance state such as the number
        # of exposed controllers must not be remembered per class / per process
        from rv.cmidmap import MidiMessageType

        warm = rv.Project()
        warm.new_module(rv.m.MetaModule).user_defined_controllers = case["counts"][0]
        warm.read()
        for n in case["counts"]:
            mm = p.new_module(rv.m.MetaModule)
            mm.project.new_module(rv.m.Amplifier)
            mm.user_defined_controllers = n
            if n:
                mm.mappings.values[n - 1].module, mm.mappings.values[n - 1].controller = 1, 0
                mm.update_user_defined_controllers()
                mm.set_raw(f"user_defined_{n}", 77)
                cm = mm.controller_midi_maps[f"user_defined_{n}"]
                cm.message_type, cm.channel, cm.message_parameter = MidiMessageType.control_change, 3, 11
                mm.user_defined[n - 1].label = f"last{n}"
    else:
        raise ValueError(kind)
    return p


def make_pattern(slot):
    import rv.api as rv

    if slot is None:
        return None
    if slot["t"] == "clone":
        c = rv.PatternClone(source=slot.get("source", 0))
        for k in ("x", "y", "flags_PFFF"):
            if k in slot:
                setattr(c, k, slot[k])
        return c
    kw = {k: slot[k] for k in ("tracks", "lines", "name", "y_size", "flags_PFLG", "flags_PFFF", "x", "y") if k in slot}
    if "icon" in slot:
        kw["icon"] = slot["icon"]
    for k in ("fg_color", "bg_color"):
        if k in slot:
            kw[k] = tuple(slot[k])
    pat = rv.Pattern(**kw)
    for (line, track, cell) in slot.get("cells", []):
        n = pat.data[line][track]
        n.note, n.vel, n.module, n.ctl, n.val = rv.NOTECMD(cell[0]), cell[1], cell[2], cell[3], cell[4]
    if slot.get("fill"):
        k = 0
        for line in pat.data:
            for n in line:
                k += 1
                n.note, n.vel, n.module, n.ctl, n.val = rv.NOTECMD(1 + k % 120), k % 130, k, (k * 257) & 0xFFFF, (k * 4099) & 0xFFFF
    return pat


def run_case(case):
    if case.get("kind") == "builder":
        return builder_replay(case)
    if "history" in case:
        return builder_replay({"history": case["history"]})
    b_unobserved = C.save(build_case(case))
    p = build_case(case)
    vs, b = roundtrip(p, case, case["kind"], case_key(case))
    if b and b_unobserved != b:
        vs = vs + [C.viol("file-depends-on-whether-the-object-was-read-first", dict(case_key(case), part=case["kind"]),
                          {"lens": [len(b_unobserved), len(b)]}, case)]
    return vs


def case_key(case):
    k = case["kind"]
    if k == "module":
        return {"type": "+".join(t for t, _ in case["mods"])}
    if k == "field":
        return {"field": case["n"]}
    if k == "name":
        return {"which": case["which"]}
    if k == "combo":
        return {"combo": "+".join(sorted(str(next(iter(case_key(c).values()), c["kind"])) for c in case["parts"]))}
    return {}


# ----------------------------------------------------------------------------- enumerations
def pattern_cases(thorough):
    cases = []
    P = {"t": "pattern", "tracks": 2, "lines": 2, "fill": True}
    Cl = {"t": "clone", "source": 0, "x": 4, "y": -3}
    alphabet = [P, Cl, None]
    import itertools

    for n in range(0, 4):
        for combo in itertools.product(range(3), repeat=n):
            cases.append({"kind": "patterns", "slots": [alphabet[i] for i in combo]})
    # ... up to images of exactly 64 KiB and a little more (32 x 256 cells x 8 bytes = 65536)
    shapes = [(t, l) for t in (1, 2, 3) for l in (1, 2, 3)] + [(4, 32), (32, 1), (1, 64), (32, 255), (32, 256), (32, 257)]
    if thorough:
        shapes += [(t, l) for t in (4, 5) for l in (4, 5)] + [(32, 32)]
    for t, l in shapes:
        cases.append({"kind": "patterns", "slots": [{"t": "pattern", "tracks": t, "lines": l, "fill": True}]})
    # a pattern that is attached BEFORE it gets its shape (and, in the second form, before its first cell is written)
    for l2, t2 in ((8, 2), (1, 1), (64, 5), (32, 4)):
        cases.append({"kind": "patterns", "slots": [{"t": "pattern", "then_shape": [l2, t2]}]})
        cases.append({"kind": "patterns", "slots": [{"t": "pattern", "tracks": 3, "lines": 5, "then_shape": [l2, t2],
                                                     "then_cells": [[l2 - 1, t2 - 1, [61, 77, 2, 0x0102, 0x0304]]]}]})
    # pattern attribute corners
    attrs = {
        "name": ["", "p", "näme 中", "n" * 100], "y_size": U32, "flags_PFLG": [0, 1, 2, 3, U32_MAX],
        "flags_PFFF": [0, 1, 2, 8, 0x10, 0x1B, U32_MAX], "x": I32, "y": I32,
        "icon": [bytes(32), bytes([255] * 32), bytes(range(32))],
        "fg_color": [[0, 0, 0], [255, 254, 253], [1, 2, 3]], "bg_color": [[0, 0, 0], [255, 254, 253], [1, 2, 3]],
    }
    for k, vals in attrs.items():
        for v in vals:
            cases.append({"kind": "patterns", "slots": [{"t": "pattern", "tracks": 1, "lines": 1, k: v}]})
    # k = 2: every pair of values of two DIFFERENT pattern attributes (a reader/writer that treats one attribute
    # depending on another -- e.g. an icon under the "no icon" flag -- is only visible in pairs)
    names = list(attrs)
    for i, k1 in enumerate(names):
        for k2 in names[i + 1:]:
            for v1 in attrs[k1][1:]:
                for v2 in attrs[k2][1:]:
                    cases.append({"kind": "patterns", "slots": [{"t": "pattern", "tracks": 1, "lines": 1, k1: v1, k2: v2}]})
    for k, vals in {"source": [0, 1, 255, U32_MAX], "x": I32, "y": I32, "flags_PFFF": [0, 1, 3, U32_MAX]}.items():
        for v in vals:
            cases.append({"kind": "patterns", "slots": [{"t": "pattern", "tracks": 1, "lines": 1},
                                                        {"t": "clone", k: v}]})
    # note alphabet at every cell of a 2x3 pattern
    import rv.api as rv

    notes = [int(m) for m in rv.NOTECMD]
    cells = [[n, 0, 0, 0, 0] for n in notes]
    cells += [[1, v, 0, 0, 0] for v in (1, 2, 128, 129)]
    for w in (1, 255, 256, 0x8000, 0xFFFF):
        cells += [[0, 0, w, 0, 0], [0, 0, 0, w, 0], [0, 0, 0, 0, w]]
    cells += [[120, 129, 0xFFFF, 0xFFFF, 0xFFFF]]
    for (line, track) in [(l, t) for l in range(3) for t in range(2)]:
        for c in cells:
            if (line, track) != (0, 0) and c[0] not in (0, 1, 128, 140) and c[1:] == [0, 0, 0, 0]:
                continue  # every NOTECMD at cell (0,0); a subset at the other cells
            cases.append({"kind": "patterns", "slots": [{"t": "pattern", "tracks": 2, "lines": 3,
                                                         "cells": [[line, track, c]]}]})
    return cases


def all_cases(ctx):
    cases = []
    for n, vals in PROJECT_FIELDS.items():
        for v in vals:
            cases.append({"kind": "field", "n": n, "v": v})
    for which in ("project", "module", "midi_out", "pattern", "metamodule_inner"):
        for s in name_alphabet() + ["", "Project", "näme", "a" * 200]:
            cases.append({"kind": "name", "which": which, "s": s})
    # k = 2 at project level: two header fields, and a header field with a (non-ASCII / long / empty) name
    fields = list(PROJECT_FIELDS)
    two = {n: [v for v in (PROJECT_FIELDS[n][1], PROJECT_FIELDS[n][-1])] for n in fields}
    two["based_on_version"] = PROJECT_FIELDS["based_on_version"]
    for i, a in enumerate(fields):
        for b in fields[i + 1:]:
            for va in two[a][:2] if not ctx.thorough else two[a]:
                for vb in two[b][:2] if not ctx.thorough else two[b]:
                    cases.append({"kind": "combo", "parts": [{"kind": "field", "n": a, "v": va},
                                                             {"kind": "field", "n": b, "v": vb}]})
    for a in fields:
        for va in two[a]:
            for which in ("project", "module", "pattern"):
                for sname in ("é", "a" * 30 + "中", "", "näme 中😀"):
                    cases.append({"kind": "combo", "parts": [{"kind": "field", "n": a, "v": va},
                                                             {"kind": "name", "which": which, "s": sname}]})
    # a header field together with pattern content: every "based on" version with 16-bit module numbers in the cells
    for v in PROJECT_FIELDS["based_on_version"] + [[1, 9, 4, 2], [1, 9, 5, 0], [1, 7, 0, 0]]:
        for cell in ([1, 0, 0x0201, 0, 0], [0, 0, 0x0100, 0, 0], [120, 129, 0xFFFF, 0xFFFF, 0xFFFF]):
            cases.append({"kind": "combo", "parts": [{"kind": "field", "n": "based_on_version", "v": v},
                                                     {"kind": "patterns", "slots": [{"t": "pattern", "tracks": 2, "lines": 3,
                                                                                     "cells": [[1, 1, cell]]}]}]})
    cases += pattern_cases(ctx.thorough)
    for counts in ([2, 5], [5, 2], [0, 96], [96, 0], [1, 2, 3], [3, 3]):
        cases.append({"kind": "metamodules", "counts": counts})
    return cases


def rejected_dev(tkey, devs):
    """Which deviation of the list the API rejects (applied one at a time on a fresh module)."""
    for d in devs:
        try:
            deviate.build(tkey, [d])
        except Exception:
            return d["k"] + ":" + str(d.get("n", d.get("p")))
    return "+".join(d["k"] + ":" + str(d.get("n", d.get("p"))) for d in devs)


def _task(t):
    kind = t[0]
    r = C.new_result()
    if kind == "cases":
        for case in t[1]:
            try:
                b_unobserved = C.save(build_case(case))       # a twin saved without being read by the harness first
                p = build_case(case)
                vs, b = roundtrip(p, case, case["kind"], case_key(case))
                if b and b_unobserved != b:
                    vs = vs + [C.viol("file-depends-on-whether-the-object-was-read-first", dict(case_key(case), part=case["kind"]),
                                      {"lens": [len(b_unobserved), len(b)], "first_difference": C.first_byte_diff(b_unobserved, b)}, case)]
            except Exception as e:
                vs, b = [C.viol("api-rejects-in-domain-input", dict(case_key(case), part=case["kind"], exc=type(e).__name__),
                                {"error": repr(e)}, case)], b""
            r["evals"] += 1
            r["digests"].add(C.h8(b))
            r["violations"] += vs
        r["sample"] = t[1][-1] if t[1] else None
    elif kind == "moddevs":
        _k, tkey, seed, lo, hi = t
        devs = deviate.module_devs(tkey, seed)
        combos = ([[]] + [[d] for d in devs])[lo:hi]
        for c in combos:
            case = {"kind": "module", "mods": [[tkey, c]]}
            try:
                p = build_case(case)
                vs, b = roundtrip(p, case, "module", {"type": tkey})
            except Exception as e:
                vs, b = [C.viol("deviation-rejected", {"type": tkey, "exc": type(e).__name__,
                                                       "rejected": rejected_dev(tkey, c)},
                                {"error": repr(e)}, case)], b""
            r["evals"] += 1
            r["digests"].add(C.h8(b))
            r["violations"] += vs[:2] if len(r["violations"]) < 40 else []
        r["sample"] = {"kind": "module", "mods": [[tkey, combos[-1]]]} if combos else None
    elif kind == "commonpairs":
        # k = 2 over the settings every module type shares (placement, colour, MIDI in/out, flags, visualisation): two
        # values per field, every compatible pair, on one representative type
        _k, tkey, seed, lo, hi = t
        devs = [d for d in deviate.module_devs(tkey, seed) if d["k"] in deviate.COMMON_KINDS and d.get("n") != "data"]
        per_field = {}
        for d in devs:
            per_field.setdefault((d["k"], d.get("n")), []).append(d)
        small = [d for ds in per_field.values() for d in ({id(x): x for x in (ds[min(1, len(ds) - 1)], ds[-1])}.values())]
        combos = [list(pq) for pq in deviate.pairs(small)][lo:hi]
        for c in combos:
            case = {"kind": "module", "mods": [[tkey, c]]}
            try:
                b_unobserved = C.save(build_case(case))
                p = build_case(case)
                vs, b = roundtrip(p, case, "module", {"type": tkey, "k": 2})
            except Exception as e:
                vs, b = [C.viol("deviation-rejected", {"type": tkey, "exc": type(e).__name__, "rejected": rejected_dev(tkey, c)},
                                {"error": repr(e)}, case)], b""
            r["evals"] += 1
            r["digests"].add(C.h8(b))
            r["violations"] += vs[:2] if len(r["violations"]) < 40 else []
        r["sample"] = {"kind": "module", "mods": [[tkey, combos[-1]]]} if combos else None
    elif kind == "typepairs":
        _k, pairs = t
        for a, b_ in pairs:
            case = {"kind": "module", "mods": [[a, []], [b_, []]], "links": [[1, 2], [2, 1], [1, 0], [2, 0]]}
            p = build_case(case)
            vs, b = roundtrip(p, case, "module", {"type": a + "+" + b_})
            r["evals"] += 1
            r["digests"].add(C.h8(b))
            r["violations"] += vs
        r["sample"] = {"kind": "module", "mods": [[pairs[-1][0], []], [pairs[-1][1], []]]}
    return r


# ----------------------------------------------------------------------------- builder machine (E-BFS)
def builder_ops():
    ops = []
    for T in ("Amplifier", "Generator", "MultiSynth"):
        ops.append({"op": "new_module", "T": T})
    ops.append({"op": "attach_none"})
    for i in range(3):
        for j in range(3):
            ops.append({"op": "connect", "f": i, "t": j})
    for i in range(3):
        for j in range(3):
            ops.append({"op": "disconnect", "f": i, "t": j})
    ops.append({"op": "attach_pattern", "what": "pattern"})
    ops.append({"op": "attach_pattern", "what": "clone"})
    ops.append({"op": "attach_pattern", "what": "none"})
    ops.append({"op": "set_note", "cell": [61, 129, 2, 0x0107, 0x8000]})
    ops.append({"op": "set_note", "cell": [128, 0, 0, 0, 0]})
    ops.append({"op": "set_field", "n": "initial_bpm", "v": 200})
    ops.append({"op": "set_field", "n": "restart_position", "v": -5})
    ops.append({"op": "set_ctl", "m": 1, "which": "first", "v": "max"})
    ops.append({"op": "set_ctl", "m": 2, "which": "last", "v": "min"})
    ops.append({"op": "save"})
    # ANOTHER project asks for this project's first module and last pattern and is refused: nothing here changes
    ops.append({"op": "refused_elsewhere"})
    return ops


class Builder:
    def __init__(self):
        self.ops = builder_ops()

    def fresh(self):
        import rv.api as rv

        return {"p": rv.Project(), "saved": 0}

    def apply(self, L, op):
        import rv.api as rv

        p = L["p"]
        k = op["op"]
        L["saved"] = 1 if k == "save" else 0
        L["saved_ever"] = 1 if (k == "save" or L.get("saved_ever")) else 0
        if k == "save":
            p.read()            # a save between edits must not make a later save miss the edits
            return "ok"
        if k == "refused_elsewhere":
            if L.get("refused") or len(p.modules) < 2 or p.modules[1] is None:
                return "skip"
            q = rv.Project()
            last = p.modules[-1]
            for req in (lambda: q.attach_module(p.modules[1]),
                        lambda: q.__iadd__([last]) if last is not None and last is not p.modules[1] and last is not p.output else None,
                        lambda: q.attach_pattern(p.patterns[-1]) if p.patterns and p.patterns[-1] is not None else None):
                try:
                    req()
                except Exception:
                    pass
            L["refused"] = 1
            return "ok"
        if k == "new_module":
            nm = p.new_module(getattr(rv.m, op["T"]))
            # placement that differs from what a reader would assume for a module it knows nothing about
            nm.x, nm.y, nm.layer = 96 + 8 * nm.index, 700 - 16 * nm.index, 1 + nm.index % 3
        elif k == "attach_none":
            p.attach_module(None)
        elif k in ("connect", "disconnect"):
            if op["f"] >= len(p.modules) or op["t"] >= len(p.modules):
                return "skip"
            a, b = p.modules[op["f"]], p.modules[op["t"]]
            if a is None or b is None:
                return "skip"
            p.connect(a, b if k == "connect" else ~b)
        elif k == "attach_pattern":
            w = op["what"]
            p.attach_pattern(rv.Pattern(tracks=2, lines=2) if w == "pattern" else
                             rv.PatternClone(source=0) if w == "clone" else None)
        elif k == "set_note":
            pats = [x for x in p.patterns if isinstance(x, rv.Pattern)]
            if not pats:
                return "skip"
            n = pats[-1].data[1][1]
            c = op["cell"]
            n.note, n.vel, n.module, n.ctl, n.val = rv.NOTECMD(c[0]), c[1], c[2], c[3], c[4]
        elif k == "set_field":
            setattr(p, op["n"], op["v"])
        elif k == "set_ctl":
            if op["m"] >= len(p.modules) or p.modules[op["m"]] is None:
                return "skip"
            m = p.modules[op["m"]]
            names = list(m.controllers)
            n = names[0] if op["which"] == "first" else names[-1]
            t = m.controllers[n].instance_value_type(m)
            if hasattr(t, "min"):
                setattr(m, n, t.max if op["v"] == "max" else t.min)
            elif t is bool:
                setattr(m, n, op["v"] == "max")
            else:
                setattr(m, n, list(t)[-1 if op["v"] == "max" else 0])
        return "ok"

    def canon(self, L):
        s = S.project(L["p"])
        for m in s["modules"]:
            if m is not None:
                # a fresh controller-only canonical form keeps the state small but complete for
                # this driver: type, links, controllers, and the project-level fields/patterns
                for k in ("payload", "options", "cmid"):
                    m.pop(k, None)
        s["_refused"] = L.get("refused", 0)
        s["_saved_last"] = (L.get("saved", 0), L.get("saved_ever", 0))   # a save may leave hidden state behind: do not merge with unsaved states
        return s

    def invariant(self, L):
        return []

    def state_check(self, L):
        vs, _b = roundtrip(L["p"], None, "builder")
        return vs

    def model_fresh(self):
        return None

    def model_apply(self, m, op):
        return None

    def compare(self, L, m, op, outcome, expected):
        if outcome.startswith("crash"):
            return [C.viol("builder-op-raises", {"op": op["op"], "outcome": outcome}, {})]
        return []


def builder_replay(case):
    b = Builder()
    L = b.fresh()
    for op in case["history"]:
        b.apply(L, op)
    return roundtrip(L["p"], case, "builder")[0]


# ----------------------------------------------------------------------------- run
def run(ctx):
    treeenv.setup()
    agg = C.Agg()
    cases = all_cases(ctx)
    tasks = [("cases", cases[i:i + 40]) for i in range(0, len(cases), 40)]
    for k in deviate.type_keys():
        n = len(deviate.module_devs(k, ctx.seed)) + 1
        for lo in range(0, n, 60):
            tasks.append(("moddevs", k, ctx.seed, lo, min(n, lo + 60)))
    for lo in range(0, 1400, 100):
        tasks.append(("commonpairs", "Amplifier", ctx.seed, lo, lo + 100))
    tk = deviate.type_keys()
    if ctx.thorough:
        prs = [(a, b) for a in tk for b in tk]
    else:
        # quick: every type once as source and once as destination of a linked pair
        prs = [(tk[i], tk[(i + 1 + ctx.seed) % len(tk)]) for i in range(len(tk))]
    tasks += [("typepairs", prs[i:i + 30]) for i in range(0, len(prs), 30)]
    for r in ctx.pmap(_task, tasks):
        agg.merge(r)
    ctx.add(agg.violations)
    depth = 6 if ctx.thorough else 5
    bsys = Builder()
    res = explorer.bfs(ctx, bsys, depth, chunk=8, verify_chunk=32)
    ctx.add(res.violations)
    return {
        "states": res.states,
        "transitions": res.transitions,
        "traces_validated_against_impl": res.replay_verified,
        "builder": {"ops": len(bsys.ops), "depth_completed": res.depth_completed, "states_per_level": res.levels,
                    "outcomes": res.outcomes, "round_trips_checked_once_per_state": res.replay_verified + 1},
        "edev": {"evaluations": agg.evals, "distinct_written_files": len(agg.digests),
                 "project_fields": len(PROJECT_FIELDS), "names": len(name_alphabet()),
                 "type_pairs": len(prs)},
        "exhaustive": not res.capped,
        "samples": agg.samples[:4] + [{"history": [bsys.ops[0], bsys.ops[5], bsys.ops[22]]}],
        "rule": "E-DEV cases (project fields, names, pattern lists, note cells, every module type x every single "
                "deviation, linked type pairs) + E-BFS builder machine; save/load round trip in every state",
    }
