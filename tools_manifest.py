#!/venv/bin/python
"""Regenerates MANIFEST.json from the table below (kept in one place so it stays valid)."""
import json, os

HERE = os.path.dirname(os.path.abspath(__file__))

CHECKS = {
 "C07": dict(level="model_checking", ref="DESIGN.md §5 C07",
   technique="explicit-state BFS over the real Project.connect with a lock-step reference model (bounded model checking of the implementation)",
   text="Every state of a 4-module project reachable by single-operand connect/disconnect requests up to depth 5 (thorough 6), and by the full list/~ alphabet up to depth 2 (thorough 3), satisfies the mutual-consistency invariants I1-I4, and on every transition the connection set equals the reference model's; operator sugar is checked against its method form from every state of depth <= 2; requests naming a foreign module must be refused. Exhaustive within those bounds, nothing sampled.",
   note="Trusted: rvref.model.LinkModel (edge-set semantics read off the property), the harness's table reader. Bounded to 4 local modules and the stated depths; `~x >> y` is outside the alphabet."),
}

NOT_YET = {}

def main():
    props = [json.loads(l) for l in open(os.path.join(HERE, "properties.jsonl"))]
    checks = []
    na = []
    for p in props:
        pid = p["id"]
        c = CHECKS.get(pid)
        if c is None:
            na.append({"property_id": pid, "reason": NOT_YET.get(pid, "check not built yet in this revision of /verif (planned, see DESIGN.md §5)")})
            continue
        checks.append({
            "property_id": pid,
            "quick_cmd": f"./check {pid} --tier quick",
            "thorough_cmd": f"./check {pid} --tier thorough",
            "evidence_file": f"/verif/evidence/{pid}.json",
            "replay_cmd_template": f"./check {pid} --replay {{path}}",
            "engine": "rvmc",
            "level_claimed": {"category": c["level"], "text": c["text"], "design_ref": c["ref"]},
            "level_note": c["note"],
            "technique": c["technique"],
        })
    man = {
        "version": 1,
        "setup_cmd": "true",
        "hooks": {
            "guard": "RV_VERIF",
            "enable": "no source hooks are needed: every property is observed through public attributes, written bytes and file objects supplied by the checks; checks import rv from /repo/src/python (or $RV_VERIF_REPO)",
            "baseline_off_cmd": "cd /repo && /venv/bin/python -m pytest -ra -q -p no:cacheprovider --timeout=900 --continue-on-collection-errors",
            "source_commits": [],
            "add_only": True,
        },
        "engines": [
            {"name": "rvmc", "path": "/verif/rvmc", "serves_properties": sorted(CHECKS),
             "kind_free_text": "hand-written bounded exhaustive explorer for Python: explicit-state BFS with history replay and lock-step reference model (E-BFS), deviation-bounded exhaustive input enumeration (E-DEV), fault-point enumeration (E-FLT); runs the real rv code"},
            {"name": "rvref", "path": "/verif/rvref", "serves_properties": sorted(CHECKS),
             "kind_free_text": "independent reference: YAML spec tables, file-format decoder/encoder and API reference model; never imports rv"},
        ],
        "checks": checks,
        "not_applicable": na,
        "notes": "Model checking of a sequential library: all operation sequences / inputs / fault points inside stated bounds, against reference models. See DESIGN.md.",
    }
    with open(os.path.join(HERE, "MANIFEST.json"), "w") as f:
        json.dump(man, f, indent=1)
    print("MANIFEST.json:", len(checks), "checks,", len(na), "not_applicable")

if __name__ == "__main__":
    main()
