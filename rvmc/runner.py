"""Common driver: parallel task execution, aggregation, evidence, exit code.

A check module (checks/cXX.py) provides

    PROPERTY = "C07"; LEVEL = "model_checking" | "exploration" | "fault_enumeration"
    def run(ctx) -> coverage dict          # does the exploration, calls ctx.add(...)
    def run_case(case) -> list[violation]  # re-executes ONE case (used by --replay)

`ctx.pmap(fn, tasks)` runs module-level function `fn` over JSON-able coarse tasks on a
fork pool (workers inherit the already imported `rv`); results come back in task order, so
output is deterministic for a given seed.
"""
import argparse
import importlib
import json
import multiprocessing as mp
import os
import sys
import time
import traceback

from . import evidence, findings, treeenv

NPROC = int(os.environ.get("RV_VERIF_NPROC", "16"))


class Ctx:
    def __init__(self, property_id, tier, seed):
        self.property_id = property_id
        self.tier = tier
        self.seed = seed
        self.violations = []
        self.notes = []
        self.t0 = time.time()
        self._pool = None

    # -- violations -----------------------------------------------------------------
    def add(self, vs):
        if vs:
            self.violations.extend(vs)

    def note(self, msg):
        if len(self.notes) < 50:
            self.notes.append(msg)
            print(f"NOTE: {msg}")

    # -- parallel map ---------------------------------------------------------------
    def pool(self):
        if self._pool is None:
            ctxm = mp.get_context("fork")
            self._pool = ctxm.Pool(NPROC)
        return self._pool

    def pmap(self, fn, tasks, chunksize=1):
        tasks = list(tasks)
        if NPROC <= 1 or len(tasks) <= 1:
            return [fn(t) for t in tasks]
        return self.pool().map(fn, tasks, chunksize=chunksize)

    def close(self):
        if self._pool is not None:
            self._pool.close()
            self._pool.join()
            self._pool = None

    @property
    def thorough(self):
        return self.tier == "thorough"


def rotate(seq, seed):
    """Seed-dependent rotation of an enumeration order (never changes the set)."""
    seq = list(seq)
    if not seq:
        return seq
    k = seed % len(seq)
    return seq[k:] + seq[:k]


def main(argv=None):
    ap = argparse.ArgumentParser()
    ap.add_argument("property")
    ap.add_argument("--tier", default=os.environ.get("VERIF_TIER", "quick"),
                    choices=["quick", "thorough"])
    ap.add_argument("--replay", default=None)
    ap.add_argument("--seed", type=int, default=int(os.environ.get("VERIF_SEED", "0") or 0))
    a = ap.parse_args(argv)
    pid = a.property.upper()
    treeenv.setup()
    mod = importlib.import_module(f"checks.{pid.lower()}")

    if a.replay:
        with open(a.replay) as f:
            rec = json.load(f)
        case = findings.unjson(rec["case"])
        vs1 = mod.run_case(case)
        vs2 = mod.run_case(case)
        k1 = sorted(findings.violation_id(pid, v) for v in vs1)
        k2 = sorted(findings.violation_id(pid, v) for v in vs2)
        if k1 != k2:
            print(f"HARNESS-ERROR: replay of {a.replay} is not deterministic")
            return 2
        want = findings.violation_id(pid, {"subcheck": rec["subcheck"], "key": rec["key"]})
        hit = [v for v in vs1 if findings.violation_id(pid, v) == want]
        if hit:
            print(f"VIOLATION property={pid} replay={a.replay}")
            print("  " + json.dumps(findings._jsonable(hit[0].get("detail")), sort_keys=True)[:600])
            return 1
        if vs1:
            print(f"replay: recorded violation not reproduced, but {len(vs1)} other violation(s) seen:")
            for v in vs1[:5]:
                print("  ", v["subcheck"], json.dumps(findings._jsonable(v.get("key"))))
            print(f"VIOLATION property={pid} replay={a.replay}")
            return 1
        print(f"replay: no violation (property {pid} holds on this case)")
        return 0

    ctx = Ctx(pid, a.tier, a.seed)
    try:
        cov = mod.run(ctx)
    except Exception:
        traceback.print_exc()
        print(f"HARNESS-ERROR: check {pid} crashed")
        ctx.close()
        return 2
    ctx.close()
    wall = time.time() - ctx.t0
    # Before a violation is reported its case is re-executed twice on fresh objects; the record says
    # whether it reproduces in isolation (a history-dependent failure, e.g. one that needs an earlier
    # failed load in the same process, is still reported — the full run is then the reproducer).
    seen_ids = set()
    for v in ctx.violations:
        vid = findings.violation_id(pid, v)
        if vid in seen_ids or len(seen_ids) >= 12 or v.get("case") is None:
            continue
        seen_ids.add(vid)
        try:
            case = findings.unjson(findings._jsonable(v["case"]))
            r1 = {findings.violation_id(pid, x) for x in mod.run_case(case)}
            r2 = {findings.violation_id(pid, x) for x in mod.run_case(case)}
            v.setdefault("detail", {})
            if isinstance(v["detail"], dict):
                v["detail"]["reproduced_in_isolation"] = (vid in r1 and vid in r2)
                v["detail"]["replay_deterministic"] = (r1 == r2)
        except Exception as e:  # the replay entry point must never turn a finding into a crash
            if isinstance(v.get("detail"), dict):
                v["detail"]["reproduced_in_isolation"] = f"replay raised {type(e).__name__}"
    n_new, n_known = findings.report(pid, ctx.violations, a.seed, a.tier)
    cov.setdefault("known_finding_cases", n_known)
    if ctx.notes:
        cov.setdefault("notes", ctx.notes)
    evidence.write(pid, a.tier, a.seed, mod.LEVEL, cov, wall, n_new,
                   getattr(mod, "ASSUMPTIONS", []))
    summary = {k: v for k, v in cov.items() if isinstance(v, (int, float, bool, str)) and k != "rule"}
    print(f"{pid} tier={a.tier} seed={a.seed} wall={wall:.1f}s violations={n_new} known={n_known} "
          + " ".join(f"{k}={v}" for k, v in sorted(summary.items())))
    return 1 if n_new else 0


if __name__ == "__main__":
    sys.exit(main())
