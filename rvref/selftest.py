"""rvref.selftest -- run as ``/venv/bin/python -m rvref.selftest`` from /verif.

(a) every fixture (.sunvox / .sunsynth below <repo>/tests/files) decodes
    without DecodeError and every byte is consumed;
(b) every fixture value round-trips: decode(encode(v, layout)).value == v;
(c) hand-built values round-trip; layout switches and the structural
    ``problems`` / DecodeError rules behave as SHAPE.md says.

Allowed normalisations in (b) -- the re-encoded BYTES may differ from the
fixture because these things are not part of the value (codec DECISIONS 10-14):
  * opaque / reserved regions: Sampler record legacy area 0x24-0xed and the
    constants at 0xf4 / 0x100, sample meta byte 0x11 and frame count, envelope
    reserved bytes, CMID bytes 3, 6, 7, bytes after the NUL of a string;
  * optional -1 terminators / trailing -1 entries of SLNK (and SLnK);
  * project header chunks missing from old files are written with their
    documented defaults (FLGS, SFGS, TIME, REPS, TGRD, ...);
  * array chunks equal to their YAML default are omitted; a drawn waveform
    gets CHFF 1 + CHFR 44100.

Exit status is non-zero on any failure.
"""

from __future__ import annotations

import copy
import os
import struct
import sys
import traceback

from . import codec
from .codec import DecodeError, build_chunks, decode, encode, parse_chunks
from .spec import load_spec, mangle, repo_root

FAILURES = []


def check(condition, message):
    if not condition:
        FAILURES.append(message)
        print("FAIL:", message)
    return condition


def fixture_paths():
    root = os.path.join(repo_root(), "tests", "files")
    found = []
    for directory, _dirs, files in os.walk(root):
        for name in files:
            if name.endswith((".sunvox", ".sunsynth")):
                found.append(os.path.join(directory, name))
    return root, sorted(found)


def modules_of(value):
    """All module dicts of the outermost container (None slots skipped)."""
    if value["kind"] == "synth":
        return [value["module"]]
    return [m for m in value["modules"] if m is not None]


def fixture_layout(value):
    always = any(m["in_link_slots"] is not None for m in modules_of(value))
    return {"slot_chunk": "always" if always else "never"}


def first_difference(a, b, path="value"):
    """Human readable location of the first difference between two values."""
    if type(a) is not type(b):
        return "%s: type %s != %s" % (path, type(a).__name__, type(b).__name__)
    if isinstance(a, dict):
        for key in sorted(set(a) | set(b), key=repr):
            if key not in a or key not in b:
                return "%s[%r]: missing on one side" % (path, key)
            found = first_difference(a[key], b[key], "%s[%r]" % (path, key))
            if found:
                return found
        return None
    if isinstance(a, list):
        if len(a) != len(b):
            return "%s: length %d != %d" % (path, len(a), len(b))
        for index, (x, y) in enumerate(zip(a, b)):
            found = first_difference(x, y, "%s[%d]" % (path, index))
            if found:
                return found
        return None
    return None if a == b else "%s: %r != %r" % (path, a, b)


def assert_roundtrip(label, value, layout=None, expect_problems=()):
    try:
        data = encode(value, layout)
        again = decode(data)
    except Exception:  # noqa: BLE001 - selftest reports everything
        traceback.print_exc()
        check(False, "%s: encode/decode raised" % label)
        return None
    check(again.value == value, "%s: value does not round-trip (%s)"
          % (label, first_difference(value, again.value)))  # fmt: skip
    check(list(again.problems) == list(expect_problems),
          "%s: problems %r, expected %r" % (label, again.problems, list(expect_problems)))  # fmt: skip
    return again


# ---------------------------------------------------------------------------
# (a) + (b) fixtures
# ---------------------------------------------------------------------------


def run_fixtures():
    root, paths = fixture_paths()
    print("== fixtures under %s: %d files" % (root, len(paths)))
    check(len(paths) > 0, "no fixtures found")
    decoded_count = 0
    for path in paths:
        name = os.path.relpath(path, root)
        with open(path, "rb") as handle:
            data = handle.read()
        try:
            chunks = parse_chunks(data)
            result = decode(data)
        except DecodeError as error:
            check(False, "%s: DecodeError %s" % (name, error))
            continue
        decoded_count += 1
        # every byte consumed: framing covers the stream exactly and rebuilds it
        consumed = sum(8 + len(payload) for _cid, payload in chunks)
        check(consumed == len(data), "%s: %d of %d bytes consumed" % (name, consumed, len(data)))
        check(build_chunks(chunks) == data, "%s: framing does not rebuild the bytes" % name)
        unknown = [p for p in result.problems if "unknown chunk" in p]
        check(not unknown, "%s: unknown chunks %r" % (name, unknown))

        layout = fixture_layout(result.value)
        try:
            encoded = encode(result.value, layout)
            again = decode(encoded)
        except Exception:  # noqa: BLE001
            traceback.print_exc()
            check(False, "%s: re-encode raised" % name)
            continue
        same_value = again.value == result.value
        check(same_value, "%s: value does not round-trip (%s)"
              % (name, first_difference(result.value, again.value)))  # fmt: skip
        # encode must be a fixed point after one normalisation pass
        check(encode(again.value, layout) == encoded, "%s: encode is not idempotent" % name)
        # annotated() must still be encodable (keys starting with "_" ignored)
        check(encode(result.annotated(), layout) == encoded, "%s: annotated() encodes differently" % name)
        print("%-36s kind=%-7s problems=%d  value-roundtrip=%s  bytes-identical=%s"
              % (name, result.value["kind"], len(result.problems), same_value, encoded == data))  # fmt: skip
        for problem in result.problems:
            print("      problem: %s" % problem)
    print("== %d/%d fixtures decode" % (decoded_count, len(paths)))


# ---------------------------------------------------------------------------
# (c) hand-built values
# ---------------------------------------------------------------------------


def make_module(type_string, name=None, in_project=True, **overrides):
    """A complete module value with YAML defaults for ``type_string``."""
    spec = load_spec()
    tspec = spec.by_type_string[type_string]
    controllers = [[c.name, c.default_value] for c in tspec.controllers]
    options = {}
    for opt in tspec.options:
        # logical default: inverted 1-bit options are "on" (stored 0) by default
        options[opt.name] = 1 if (opt.inverted and opt.size == 1) else 0
    module = {
        "type": type_string,
        "name": name if name is not None else type_string,
        "flags": tspec.default_flags,
        "finetune": 0,
        "relative_note": 0,
        "x": 512 if in_project else None,
        "y": 512 if in_project else None,
        "layer": 0 if in_project else None,
        "scale": 256,
        "visualization": 0x000C0101 if in_project else None,
        "color": [255, 255, 255],
        "midi_in_always": False,
        "midi_in_channel": 0,
        "midi_out_name": "",
        "midi_out_channel": 0,
        "midi_out_bank": -1,
        "midi_out_program": -1,
        "in_links": [] if in_project else None,
        "in_link_slots": [] if in_project else None,
        "controllers": controllers,
        "cvals_raw": None,
        "cmid": [[0, 0, 0, 0] for _ in controllers],
        "options": options,
        "options_raw": bytes(64) if tspec.options else None,
        "chnk": default_chnk(type_string),
        "payload": default_payload(type_string),
    }
    module.update(overrides)
    return finish_module(module)


def default_chnk(type_string):
    """CHNK values as seen in SunVox-written fixtures (None: type has no chunks)."""
    tspec = load_spec().by_type_string[type_string]
    if type_string == "Sampler":
        return 0x10B  # D: highest CHNM 0x10a + 1
    if type_string == "MetaModule":
        return 8 + 96  # D CHNM 8+n labels, Y 96 user defined controllers
    if tspec.options or tspec.chunks:
        return 4
    return None


def finish_module(module):
    """Recompute the derived keys (cvals_raw, options_raw) of a module."""
    spec = load_spec()
    tspec = spec.by_type_string.get(module["type"])
    module["cvals_raw"] = codec._encode_controllers(tspec, module["type"], module["controllers"], None)
    if module["options_raw"] is not None:
        module["options_raw"] = codec._encode_options(tspec, module["options"], module["options_raw"])
    return module


def default_payload(type_string):
    spec = load_spec()
    if type_string in codec._ARRAYS:
        return {k: codec._copy_array(v) for k, v in codec._array_defaults(spec, type_string).items()}
    if type_string == "Vorbis player":
        return {"data": b""}
    if type_string == "MetaModule":
        return {"project": None, "mappings": [[0, 0] for _ in range(96)], "labels": {}}
    if type_string == "Sampler":
        return {
            "samples": {}, "envelopes": {}, "note_samples": [0] * 128,
            "vibrato_type": 0, "vibrato_attack": 0, "vibrato_depth": 0, "vibrato_rate": 0,
            "volume_fadeout": 0, "max_version": 6, "editor_cursor": 0, "editor_selected_size": 0,
            "record_size": 400, "signature": b"PMAS", "effect": None,
        }  # fmt: skip
    return {}


def make_output():
    module = make_module("Output", name="Output")
    module["cmid"] = None
    return module


def make_project(**overrides):
    project = {
        "kind": "project",
        "sunvox_version": [2, 1, 2, 1],
        "based_on_version": [2, 1, 2, 1],
        "flags": 0,
        "receive_sync_midi": 1,
        "receive_sync_other": 1,
        "initial_bpm": 125, "initial_tpl": 6, "time_grid": 4, "time_grid2": 4,
        "global_volume": 80, "name": "selftest",
        "modules_scale": 256, "modules_zoom": 256,
        "modules_x_offset": 0, "modules_y_offset": 0,
        "modules_layer_mask": 0, "modules_current_layer": 0,
        "timeline_position": 0, "restart_position": 0,
        "selected_module": 0, "selected_generator": 0xFFFFFFFF,
        "current_pattern": 0, "current_track": 0, "current_line": 0,
        "patterns": [],
        "modules": [],
    }  # fmt: skip
    project.update(overrides)
    return project


def make_pattern(tracks=2, lines=4):
    cells = [[[0, 0, 0, 0, 0] for _ in range(tracks)] for _ in range(lines)]
    cells[0][0] = [49, 129, 2, 0x0311, 0x1234]  # C-4, max velocity, module 2, ctl 3 / effect 0x11
    cells[1][1] = [128, 0, 0, 0, 0]  # note off
    return {
        "kind": "pattern", "name": "pat", "tracks": tracks, "lines": lines, "y_size": 32,
        "flags_PFLG": 0, "icon": bytes(range(32)), "fg_color": [0, 0, 0], "bg_color": [255, 255, 255],
        "flags_PFFF": 0, "x": 0, "y": 0, "cells": cells,
    }  # fmt: skip


def make_synth(module):
    return {"kind": "synth", "version": [2, 1, 2, 1], "module": module}


def set_controller(module, name, value):
    for pair in module["controllers"]:
        if pair[0] == name:
            pair[1] = value
            return
    raise KeyError(name)


def run_handbuilt():
    print("== hand-built values")

    # 1. empty project (no patterns, no modules)
    assert_roundtrip("empty project", make_project())
    assert_roundtrip("project without BVER/LGEN",
                     make_project(based_on_version=None, selected_generator=None))  # fmt: skip

    # 2. two modules + links + pattern + clone + empty slots
    output = make_output()
    generator = make_module("Generator", name="gen")
    set_controller(generator, "panning", -100)  # range with min < 0: raw = value + 128
    set_controller(generator, "waveform", 4)  # enum "drawn"
    generator["payload"]["drawn_waveform"] = [((i * 7) % 256) - 128 for i in range(32)]
    generator["chnk"] = 1
    finish_module(generator)
    check(generator["cvals_raw"][2] == 28, "Generator.panning -100 must be stored as 28")
    output["in_links"] = [2, -1, 2]  # -1 in the middle must survive
    output["in_link_slots"] = [0, -1, 3]
    project = make_project(
        patterns=[make_pattern(), None, {"kind": "clone", "source": 0, "flags_PFFF": 1, "x": 4, "y": 0}],
        modules=[output, None, generator],
    )
    assert_roundtrip("project/always", project, {"slot_chunk": "always"})
    # auto: SLnK only where some slot is not in {0, -1}: kept for module 0, dropped for module 2
    auto = decode(encode(project, {"slot_chunk": "auto"})).value
    expected = copy.deepcopy(project)
    expected["modules"][2]["in_link_slots"] = None
    check(auto == expected, "auto: %s" % first_difference(expected, auto))
    assert_roundtrip("project/terminated", project, {"slot_chunk": "always", "terminate_links": True})
    data = encode(project, {"slot_chunk": "always"})
    ids = [cid for cid, _p in parse_chunks(data)]
    check(ids.count(b"PEND") == 3 and ids.count(b"SEND") == 3, "slot terminators: %r" % ids)
    check(ids.index(b"SLnK") == ids.index(b"SLNK") + 1, "SLnK must directly follow SLNK")
    check(ids[:5] == [b"SVOX", b"VERS", b"BVER", b"FLGS", b"SFGS"], "canonical header start")
    # slot_chunk "never" drops the slots: value differs exactly there
    without = decode(encode(project, {"slot_chunk": "never"})).value
    check(without["modules"][0]["in_link_slots"] is None, "never: SLnK must be absent")
    expected = copy.deepcopy(project)
    for module in expected["modules"]:
        if module is not None:
            module["in_link_slots"] = None
    check(without == expected, "never: only in_link_slots may change")
    # trailing empty module slots are removed by the decoder
    padded = copy.deepcopy(project)
    padded["modules"].append(None)
    check(decode(encode(padded, {"slot_chunk": "always"})).value == project, "trailing None module removed")

    # 3. layout switches that must show up in ``problems`` (and only there)
    extra = decode(encode(project, {"slot_chunk": "always", "extra_chunks": [[3, "XTRA", b"hello"]]}))
    check(extra.value == project, "extra chunk must not change the value")
    check(extra.problems == ["unknown chunk XTRA at 3"], "extra chunk problems: %r" % extra.problems)
    reordered = decode(encode(project, {"slot_chunk": "always", "header_order": ["SPED", "BPM "]}))
    check(reordered.value == project, "header_order must not change the value")
    check(any("out of order" in p for p in reordered.problems), "header_order must be reported")
    flags_last = decode(encode(project, {"slot_chunk": "always", "header_order":
                                         [row[0] for row in codec.PROJECT_TABLE] + ["SFGS", "FLGS"]}))  # fmt: skip
    check(flags_last.problems == [], "FLGS/SFGS may appear anywhere: %r" % flags_last.problems)
    omitted = decode(encode(project, {"slot_chunk": "always", "omit": ["TGRD", "SSCL", "PNME"]}))
    check("TGRD" not in omitted.present["ids"] and omitted.value["time_grid"] == 4, "omit TGRD -> default")
    check(omitted.value["modules"][0]["scale"] is None, "omit SSCL -> None")
    check(omitted.value["patterns"][0]["name"] is None, "omit PNME -> None")
    check("SSCL" not in omitted.present["modules"][0]["_present"], "present record for SSCL")

    # 4. one synth per type
    analog = make_module("Analog generator", in_project=False)
    analog["options"]["smooth_frequency_change"] = 0  # inverted: stored 1
    analog["options"]["retain_phase"] = 1
    analog["payload"]["drawn_waveform"] = list(range(-16, 16))
    analog["chnk"] = 2
    finish_module(analog)
    check(analog["options_raw"][6] == 1 and analog["options_raw"][8] == 1, "inverted option storage")
    assert_roundtrip("synth Analog generator", make_synth(analog))

    multisynth = make_module("MultiSynth", in_project=False)
    set_controller(multisynth, "transpose", -12)  # compact range: raw = value + 128
    multisynth["options"]["active_curve"] = 2
    multisynth["options"]["out_port_mode"] = 3
    multisynth["payload"]["nv_curve"] = [i * 2 for i in range(128)]
    multisynth["payload"]["np_curve"] = [i * 500 for i in range(128)]
    multisynth["chnk"] = 4
    finish_module(multisynth)
    check(multisynth["cvals_raw"][0] == 116, "MultiSynth.transpose -12 must be stored as 116")
    check(multisynth["options_raw"][2] == 2 and multisynth["options_raw"][4] == 0xC0, "multi-bit options")
    assert_roundtrip("synth MultiSynth", make_synth(multisynth))

    vorbis = make_module("Vorbis player", in_project=False)
    set_controller(vorbis, "finetune", -5)  # no_offset: stored as signed -5
    set_controller(vorbis, "transpose", -5)  # plain range: stored as 123
    vorbis["payload"]["data"] = b"OggS\0fake"
    vorbis["chnk"] = 1
    finish_module(vorbis)
    check(vorbis["cvals_raw"][2] == -5 and vorbis["cvals_raw"][3] == 123, "no_offset vs range")
    assert_roundtrip("synth Vorbis player", make_synth(vorbis))

    inner = make_project(name="inner", modules=[make_output(), make_module("Delay", name="dly")])
    inner["modules"][0]["in_links"] = [1]
    inner["modules"][0]["in_link_slots"] = [0]
    meta = make_module("MetaModule", in_project=False)
    meta["controllers"] += [["user_defined_1", 7], ["user_defined_2", 40000]]
    meta["cmid"] += [[3, 1, 2, 74], [0, 0, 0, 0]]
    meta["options"]["user_defined_controllers"] = 2
    meta["options"]["event_output"] = 0
    meta["payload"] = {
        "project": inner,
        "mappings": [[1, 3], [1, 4]] + [[0, 0] for _ in range(94)],
        "labels": {0: "cutoff", 1: "délai"},
    }
    meta["chnk"] = 10
    finish_module(meta)
    assert_roundtrip("synth MetaModule", make_synth(meta), {"slot_chunk": "always"})

    sampler = make_module("Sampler", in_project=False)
    sampler["payload"]["samples"] = {
        0: {"data": bytes(range(64)), "format": 2, "stereo": True, "rate": 22050, "loop_start": 2,
            "loop_len": 8, "volume": 64, "finetune": -3, "loop_type": 2, "loop_sustain": True,
            "panning": -28, "relative_note": 12, "name": b"snare", "start_pos": 1, "meta_size": 44},
        3: {"data": b"\x01\x02\x03", "format": 1, "stereo": False, "rate": 44100, "loop_start": 0,
            "loop_len": 0, "volume": 10, "finetune": 0, "loop_type": 0, "loop_sustain": False,
            "panning": 0, "relative_note": 0, "name": b"", "start_pos": 0, "meta_size": 40},
    }  # fmt: skip
    sampler["payload"]["envelopes"] = {
        "volume": {"enable": True, "sustain": True, "loop": False, "ctl_index": 0, "gain_pct": 100,
                   "velocity": 0, "sustain_point": 1, "loop_start_point": 0, "loop_end_point": 0,
                   "points": [[0, 0x8000], [16, 0x4000], [64, 0]]},
        "pitch": {"enable": False, "sustain": False, "loop": True, "ctl_index": 0, "gain_pct": 50,
                  "velocity": 0, "sustain_point": 0, "loop_start_point": 0, "loop_end_point": 1,
                  "points": [[0, -0x4000], [32, 0x4000]]},
    }  # fmt: skip
    sampler["payload"]["note_samples"] = [3 if i >= 60 else 0 for i in range(128)]
    sampler["payload"]["vibrato_type"] = 1
    sampler["payload"]["volume_fadeout"] = 0x1234
    sampler["payload"]["editor_cursor"] = -1
    sampler["payload"]["effect"] = make_synth(make_module("Echo", in_project=False))
    sampler["options"]["record_in_16_bit"] = 1
    sampler["options"]["fit_to_pattern"] = 200
    sampler["chnk"] = 0x10B
    finish_module(sampler)
    # the 40-byte meta of sample 3 is reported, nothing else
    assert_roundtrip("synth Sampler", make_synth(sampler),
                     expect_problems=["module: sample 3 meta size 40 != 44"])  # fmt: skip

    delay = make_module("Delay", in_project=False)
    set_controller(delay, "delay_unit", 1)  # "ms": dependent range 0..4000
    set_controller(delay, "delay_l", 3000)
    finish_module(delay)
    assert_roundtrip("synth Delay (dependent range)", make_synth(delay))

    for type_string in sorted(load_spec().by_type_string):
        if type_string == "Output":
            continue
        assert_roundtrip("synth default %s" % type_string,
                         make_synth(make_module(type_string, in_project=False)))  # fmt: skip

    # more CVALs than the type has controllers -> "#<index>"
    amplifier = make_module("Amplifier", in_project=False)
    amplifier["controllers"].append(["#9", 77])
    amplifier["cmid"].append([0, 0, 0, 0])
    finish_module(amplifier)
    assert_roundtrip("extra CVAL", make_synth(amplifier))
    # bool raw 2 survives through cvals_raw
    odd = make_module("Amplifier", in_project=False)
    odd["controllers"][3][1] = 1
    odd["cvals_raw"][3] = 2
    assert_roundtrip("bool raw 2", make_synth(odd))


# ---------------------------------------------------------------------------
# (c) structural rules: problems vs DecodeError
# ---------------------------------------------------------------------------


def mutate(data, function):
    chunks = parse_chunks(data)
    function(chunks)
    return build_chunks(chunks)


def index_of(chunks, cid, nth=0):
    return [i for i, (c, _p) in enumerate(chunks) if c == cid][nth]


def expect_decode_error(label, data):
    try:
        decode(data)
    except DecodeError:
        return
    check(False, "%s: DecodeError expected" % label)


def expect_problem(label, data, fragment):
    try:
        problems = decode(data).problems
    except DecodeError as error:
        check(False, "%s: unexpected DecodeError %s" % (label, error))
        return
    check(any(fragment in p for p in problems), "%s: no problem containing %r in %r" % (label, fragment, problems))


def run_rules():
    print("== structural rules")
    generator = make_module("Generator", name="gen")
    generator["payload"]["drawn_waveform"] = [1] * 32
    generator["chnk"] = 1
    project = make_project(patterns=[make_pattern()], modules=[make_output(), finish_module(generator)])
    good = encode(project, {"slot_chunk": "always"})
    check(decode(good).problems == [], "baseline must be conforming: %r" % decode(good).problems)

    def replace(cid, payload, nth=0):
        def apply(chunks):
            chunks[index_of(chunks, cid, nth)] = (cid, payload)
        return apply

    expect_problem("SNAM", mutate(good, replace(b"SNAM", b"Output\0")), "SNAM length 7 != 32")
    expect_problem("PDTA", mutate(good, replace(b"PDTA", bytes(24))), "PDTA length 24 != lines*tracks*8")
    expect_problem("CMID", mutate(good, replace(b"CMID", bytes(16))), "number of CVAL 10 != CMID length 16 / 8")
    expect_problem("CHNK small", mutate(good, replace(b"CHNK", struct.pack("<I", 0))), "CHNM 0 >= CHNK 0")
    expect_problem("CHNK missing", mutate(good, lambda c: c.pop(index_of(c, b"CHNK"))), "without CHNK")
    expect_problem("unknown id", mutate(good, lambda c: c.insert(5, (b"PSYN", b"x"))), "unknown chunk PSYN at 5")
    expect_problem("module order", mutate(good, lambda c: c.insert(index_of(c, b"SNAM"), c.pop(index_of(c, b"SFIN")))),
                   "chunk SNAM out of order")  # fmt: skip

    analog = make_module("Analog generator", in_project=False)
    analog["options_raw"] = bytes(5)
    expect_problem("short options", encode(make_synth(analog)), "options record length 5 shorter")
    sampler = make_module("Sampler", in_project=False, chnk=0x10B)
    sampler["payload"]["record_size"] = 0x184
    sampler["payload"]["max_version"] = sampler["payload"]["editor_cursor"] = None
    sampler["payload"]["editor_selected_size"] = None
    assert_roundtrip("short sampler record", make_synth(sampler),
                     expect_problems=["module: Sampler record size 388 != 400 (0x190)"])  # fmt: skip
    sampler = make_module("Sampler", in_project=False, chnk=0x10B)
    sampler["payload"]["envelopes"]["volume"] = {
        "enable": True, "sustain": False, "loop": False, "ctl_index": 0, "gain_pct": 100, "velocity": 0,
        "sustain_point": 0, "loop_start_point": 0, "loop_end_point": 0, "points": [[0, 0], [1, 1]]}  # fmt: skip
    data = mutate(encode(make_synth(sampler)), lambda c: c.__setitem__(
        index_of(c, b"CHDT", 2), (b"CHDT", c[index_of(c, b"CHDT", 2)][1] + b"\0\0")))  # fmt: skip
    expect_problem("envelope size", data, "envelope volume size 30 != 0x14 + 4*2 points")

    # nested problems are propagated with a prefix
    inner = make_project(modules=[make_output()])
    meta = make_module("MetaModule", in_project=False, chnk=3)
    meta["payload"]["project"] = inner
    nested = encode(make_synth(meta), {"extra_chunks": []})
    inner_bytes = encode(inner, {"extra_chunks": [[2, b"JUNK", b""]]})
    nested = mutate(nested, lambda c: c.__setitem__(index_of(c, b"CHDT"), (b"CHDT", inner_bytes)))
    expect_problem("nested prefix", nested, "module: payload.project: unknown chunk JUNK at 2")

    # hard errors
    expect_decode_error("truncated header", good[:-3])
    expect_decode_error("trailing bytes", good + b"\x01\x02\x03")
    expect_decode_error("length beyond end", good[:-8] + b"SEND\x04\x00\x00\x00")
    expect_decode_error("missing SEND", mutate(good, lambda c: c.pop()))
    expect_decode_error("missing PEND", mutate(good, lambda c: c.pop(index_of(c, b"PEND"))))
    expect_decode_error("bad header id", b"RIFF" + good[4:])
    expect_decode_error("non-empty SVOX", mutate(good, replace(b"SVOX", b"x")))
    expect_decode_error("empty stream", b"")
    expect_decode_error("u32 of 3 bytes", mutate(good, replace(b"BPM ", b"\0\0\0")))
    for cut in range(0, len(good), 7):  # no prefix of a valid file may crash differently
        try:
            decode(good[:cut])
        except DecodeError:
            pass

    # spec helpers
    check(mangle("sec/16384") == "sec_div_16384" and mangle("Hz*0.02") == "hz_mul_0_02", "mangle / *")
    check(mangle("-exp1") == "neg_exp1" and mangle("64") == "_64" and mangle("triangle^3") == "triangle_pow_3", "mangle")
    spec = load_spec()
    check(spec.types["Gpio"].controllers[3].attr_name == "in_", "Gpio.in -> in_")
    check(spec.by_type_string["Analog generator"] is spec.types["AnalogGenerator"], "by_type_string")
    check(load_spec() is spec, "load_spec must be cached")


def main():
    try:
        run_fixtures()
        run_handbuilt()
        run_rules()
    except Exception:  # noqa: BLE001
        traceback.print_exc()
        FAILURES.append("selftest crashed")
    if FAILURES:
        print("== FAILED: %d check(s)" % len(FAILURES))
        for failure in FAILURES:
            print("   -", failure)
        return 1
    print("== OK")
    return 0


if __name__ == "__main__":
    sys.exit(main())
