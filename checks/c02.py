"""C02 — every module type survives a .sunsynth round trip and Module.clone().

E-DEV: for each of the 42 non-Output types, the default object, every single deviation
(quick) and every compatible pair of deviations (thorough) is sent through BOTH writers
(stand-alone synth, module inside a project) and through Module.clone(); the loaded module's
snapshot must equal the original's.  See DESIGN §5 C02.
"""
from checks import common as C
from rvmc import deviate, snapshot as S, treeenv

PROPERTY = "C02"
LEVEL = "exploration"
ASSUMPTIONS = [
    "bounded: k deviations from the default module (k=1 quick, k=2 thorough) over boundary-complete alphabets",
    "x, y, layer, visualization and links are not compared in the stand-alone context (N8: not in sunsynth files)",
    "snapshot() lists every attribute the writers serialise",
]


def check_module_light(tkey, devs):
    """Stand-alone synth round trip only (used for the many pairs of the reduced menu)."""
    import rv.api as rv

    case = {"type": tkey, "devs": devs, "light": True}
    mod = deviate.build(tkey, devs)
    want = C.norm_module_for_compare(S.module(mod, in_project=False))
    b1 = C.save(rv.Synth(mod))
    try:
        l1 = C.load_bytes(b1).module
    except Exception as e:
        return [C.viol("synth-unloadable", {"type": tkey, "exc": type(e).__name__}, {"error": repr(e)}, case)], C.h8(b1)
    d = S.diff(want, S.module(l1, in_project=False))
    if d:
        return [C.viol("synth-roundtrip", {"type": tkey, "path": C.first_diff_key(d), "k": 2}, {"diff": S.diff_text(d)}, case)], C.h8(b1)
    return [], C.h8(b1)


def check_module(tkey, devs):
    """Returns (violations, digest of synth bytes)."""
    import rv.api as rv
    from rv.errors import EmptySynthError  # noqa

    vs = []
    case = {"type": tkey, "devs": devs}
    # a twin that is saved WITHOUT ever being looked at by the harness (reading every field can complete lazily built
    # state, e.g. the MIDI-map table, and so hide a writer that depends on it): its file must equal the observed one's
    try:
        twin = deviate.build(tkey, devs)
        b_unobserved = C.save(rv.Synth(twin))
        ptw = rv.Project()
        ptw.attach_module(deviate.build(tkey, devs))
        b2_unobserved = C.save(ptw)
    except Exception:
        b_unobserved = b2_unobserved = None
    mod = deviate.build(tkey, devs)
    s_syn = S.module(mod, in_project=False)
    s_syn = C.norm_module_for_compare(s_syn)
    # --- stand-alone synth
    b1 = C.save(rv.Synth(mod))
    try:
        l1 = C.load_bytes(b1).module
    except Exception as e:
        return [C.viol("synth-unloadable", {"type": tkey, "exc": type(e).__name__},
                       {"error": repr(e)}, case)], C.h8(b1)
    if type(l1) is not type(mod):
        vs.append(C.viol("type-identity", {"type": tkey}, {"loaded": type(l1).__name__}, case))
    if b_unobserved is not None and b_unobserved != b1:
        vs.append(C.viol("file-depends-on-whether-the-object-was-read-first", {"type": tkey, "ctx": "synth"},
                         {"lens": [len(b_unobserved), len(b1)], "first_difference": C.first_byte_diff(b_unobserved, b1)}, case))
    vs += C.api_paths_agree(rv.Synth(mod), b1, {"type": tkey, "ctx": "synth"}, case, files=(len(devs) == 0))
    d = S.diff(s_syn, S.module(l1, in_project=False))
    if d:
        vs.append(C.viol("synth-roundtrip", {"type": tkey, "path": C.first_diff_key(d)},
                         {"diff": S.diff_text(d)}, case))
    # --- clone()
    try:
        cl = mod.clone()
        d = S.diff(s_syn, S.module(cl, in_project=False))
        if d:
            vs.append(C.viol("clone", {"type": tkey, "path": C.first_diff_key(d)},
                             {"diff": S.diff_text(d)}, case))
    except Exception as e:
        vs.append(C.viol("clone-raises", {"type": tkey, "exc": type(e).__name__}, {"error": repr(e)}, case))
    # --- inside a project
    p = rv.Project()
    p.attach_module(mod)
    s_prj = C.norm_module_for_compare(S.module(mod, in_project=True))
    b2 = C.save(p)
    if b2_unobserved is not None and b2_unobserved != b2:
        vs.append(C.viol("file-depends-on-whether-the-object-was-read-first", {"type": tkey, "ctx": "project"},
                         {"lens": [len(b2_unobserved), len(b2)], "first_difference": C.first_byte_diff(b2_unobserved, b2)}, case))
    vs += C.api_paths_agree(p, b2, {"type": tkey, "ctx": "project"}, case, files=(len(devs) == 0))
    try:
        p2 = C.load_bytes(b2)
        l2 = p2.modules[1]
    except Exception as e:
        vs.append(C.viol("project-unloadable", {"type": tkey, "exc": type(e).__name__}, {"error": repr(e)}, case))
        return vs, C.h8(b1)
    d = S.diff(s_prj, S.module(l2, in_project=True))
    if d:
        vs.append(C.viol("project-roundtrip", {"type": tkey, "path": C.first_diff_key(d)},
                         {"diff": S.diff_text(d)}, case))
    # --- the two contexts agree on their common part
    d = S.diff(S.module(l1, in_project=False), S.module(l2, in_project=False))
    if d:
        vs.append(C.viol("contexts-disagree", {"type": tkey, "path": C.first_diff_key(d)},
                         {"diff": S.diff_text(d)}, case))
    return vs, C.h8(b1) + C.h8(b2)


def run_case(case):
    if case.get("history_independence"):
        return history_independence(0)[1]
    if case.get("resave"):
        return resave_after_edit(case["type"])[1]
    if case.get("failed_save"):
        return failed_save_then_save(case["type"])[1]
    if case.get("empty_synth"):
        return empty_synth()
    if case.get("light"):
        return check_module_light(case["type"], case["devs"])[0]
    return check_module(case["type"], case["devs"])[0]


def empty_synth():
    import io
    import os
    import tempfile

    import rv.api as rv
    from rv.errors import EmptySynthError

    def never_had():
        return rv.Synth()

    def module_removed():
        s = rv.Synth(rv.m.Filter())
        s.read()
        s.module = None
        return s

    vs = []
    for origin, make in (("never-had-a-module", never_had), ("module-removed-after-a-save", module_removed)):
        for how in ("read", "write_to", "chunks", "first-chunk", "write_to-file"):
            s = make()
            f = io.BytesIO()
            written = None
            key = {"how": how, "origin": origin}
            try:
                if how == "read":
                    s.read()
                elif how == "write_to":
                    try:
                        s.write_to(f)
                    finally:
                        written = f.getvalue()
                elif how == "chunks":
                    list(s.chunks())
                elif how == "first-chunk":
                    next(iter(s.chunks()))
                else:
                    d = tempfile.mkdtemp(prefix="rvmc-c02-")
                    path = os.path.join(d, "x.sunsynth")
                    try:
                        with open(path, "wb") as fh:
                            s.write_to(fh)
                    finally:
                        written = open(path, "rb").read()
                        os.unlink(path)
                        os.rmdir(d)
                vs.append(C.viol("empty-synth-serialises", key, {"bytes": repr(f.getvalue())}, {"empty_synth": True}))
            except EmptySynthError:
                # "refuses to serialize instead of writing a broken file": nothing may have reached the sink
                if written:
                    vs.append(C.viol("empty-synth-partial-file", key, {"bytes": repr(written[:40])},
                                     {"empty_synth": True}))
            except Exception as e:
                vs.append(C.viol("empty-synth-wrong-error", dict(key, exc=type(e).__name__), {}, {"empty_synth": True}))
    return vs


def rejected_dev(tkey, devs):
    """Which deviation of the list the API rejects (applied one at a time on a fresh module)."""
    for d in devs:
        try:
            deviate.build(tkey, [d])
        except Exception:
            return d["k"] + ":" + str(d.get("n", d.get("p")))
    return "+".join(d["k"] + ":" + str(d.get("n", d.get("p"))) for d in devs)


def resave_after_edit(tkey):
    """build -> save (clone, Synth write, Project write) -> IN-PLACE edit of a payload element / option /
    binding -> save again: the second file must carry the edit (a writer that caches packed bytes while the
    list object is unchanged would replay the first save)."""
    import rv.api as rv
    from checks import c17

    vs = []
    n = 0
    ops = [o for o in c17.inplace_ops(tkey) if o["k"] not in ("ip_links", "mm_uvalue")]
    for op in ops:
        n += 1
        case = {"type": tkey, "resave": op}
        mod = deviate.new_module(tkey)
        mod.clone()
        C.save(rv.Synth(mod))
        p = rv.Project()
        p.attach_module(mod)
        C.save(p)
        try:
            c17.apply_inplace(mod, op)
        except Exception:
            continue
        want_s = C.norm_module_for_compare(S.module(mod, in_project=False))
        want_p = C.norm_module_for_compare(S.module(mod, in_project=True))
        got_s = S.module(C.load_bytes(C.save(rv.Synth(mod))).module, in_project=False)
        got_c = S.module(mod.clone(), in_project=False)
        got_p = S.module(C.load_bytes(C.save(p)).modules[1], in_project=True)
        for ctx, want, got in (("synth", want_s, got_s), ("clone", want_s, got_c), ("project", want_p, got_p)):
            d = S.diff(want, got)
            if d:
                vs.append(C.viol("edit-after-save-not-written", {"type": tkey, "ctx": ctx, "op": op["k"] + ":" + str(op.get("p", "")),
                                                                  "path": C.first_diff_key(d)},
                                 {"diff": S.diff_text(d)}, case))
        # the same edit on a module that was itself LOADED (a clone): what the load left behind (e.g. the raw
        # option bytes) must not override the edit in the next file
        for pre in ([], [{"k": "ip_optvalues"}] if getattr(mod, "options", None) else []):
            try:
                base = deviate.new_module(tkey)
                for o in pre:
                    c17.apply_inplace(base, o)
                loaded = base.clone()
                if pre:
                    # switch the options back OFF on the loaded object
                    for name, o in loaded.options.items():
                        if o.size == 1:
                            setattr(loaded, name, False)
                else:
                    c17.apply_inplace(loaded, op)
            except Exception:
                continue
            want_l = C.norm_module_for_compare(S.module(loaded, in_project=False))
            got_l = S.module(loaded.clone(), in_project=False)
            d = S.diff(want_l, got_l)
            if d:
                vs.append(C.viol("edit-of-loaded-module-not-written", {"type": tkey, "op": ("options-off" if pre else op["k"] + ":" + str(op.get("p", ""))),
                                                                       "path": C.first_diff_key(d)},
                                 {"diff": S.diff_text(d)}, case))
        # differential futures: a module and its loaded copy are interchangeable, so the SAME edit applied to both
        # must leave them equal (an accessor object that still points at what the load replaced loses the edit
        # on the copy only)
        try:
            base = deviate.new_module(tkey)
            twin = base.clone()
            outcome = []
            for x in (base, twin):
                try:
                    c17.apply_inplace(x, op)
                    outcome.append("ok")
                except Exception as e:
                    outcome.append(type(e).__name__)
        except Exception:
            continue
        n += 1
        opk = op["k"] + ":" + str(op.get("p", ""))
        if outcome[0] != outcome[1]:
            vs.append(C.viol("same-edit-accepted-differently-after-load", {"type": tkey, "op": opk},
                             {"original": outcome[0], "loaded": outcome[1]}, case))
        elif outcome[0] == "ok":
            for what, a, b in (("object", base, twin), ("next-file", base.clone(), twin.clone())):
                d = S.diff(C.norm_module_for_compare(S.module(a, in_project=False)), S.module(b, in_project=False))
                if not d and views(a) != views(b):
                    d = [("views", views(a), views(b))]
                if d:
                    vs.append(C.viol("same-edit-diverges-after-load", {"type": tkey, "op": opk, "what": what,
                                                                       "path": C.first_diff_key(d)},
                                     {"diff": S.diff_text(d)}, case))
                    break
    return n, vs


def views(mod):
    """Secondary public accessors over the same payload (not part of the canonical snapshot)."""
    if mod.mtype == "SpectraVoice":
        return [(int(h.freq_hz), int(h.volume), int(h.width), int(getattr(h.type, "value", h.type))) for h in mod.harmonics]
    return None


class _FailingWriter:
    def __init__(self, fail_at):
        self.n = 0
        self.fail_at = fail_at

    def write(self, b):
        k = self.n
        self.n += 1
        if k == self.fail_at:
            raise OSError("injected write fault")
        return len(b)


def failed_save_then_save(tkey):
    """A save of module A that fails at the k-th write (every k), or that the caller abandons after k chunks,
    must not affect the next save of another module B (scratch state shared between saves would)."""
    import io

    import rv.api as rv
    from rv.lib.iff import write_chunk

    vs = []
    n = 0
    a_devs = [d for d in deviate.module_devs(tkey, 0, spikes="few", opt8="few") if d["k"] == "opt"]
    a = deviate.build(tkey, a_devs[-6:] if a_devs else [])
    for o in getattr(a, "options", {}):
        try:
            setattr(a, o, 1)
        except Exception:
            pass
    w = _FailingWriter(None)
    rv.Synth(a).write_to(w)
    total = w.n
    b_ref = C.save(rv.Synth(deviate.new_module(tkey)))
    nchunks = len(list(rv.Synth(a).chunks()))
    plans = [("write", k) for k in range(total)] + [("abandon", k) for k in range(1, nchunks)]
    for kind, k in plans:
        n += 1
        try:
            if kind == "write":
                rv.Synth(a).write_to(_FailingWriter(k))
            else:
                g = rv.Synth(a).chunks()
                for _ in range(k):
                    next(g)
                del g
        except OSError:
            pass
        got = C.save(rv.Synth(deviate.new_module(tkey)))
        if got != b_ref:
            vs.append(C.viol("failed-save-affects-next-save", {"type": tkey, "how": kind},
                             {"k": k, "of": total if kind == "write" else nchunks}, {"type": tkey, "failed_save": [kind, k]}))
            break
    return n, vs


def hi_cases(seed):
    cases = []
    for k in deviate.type_keys():
        devs = deviate.module_devs(k, seed, spikes="few", opt8="few")
        cases.append((k, []))
        cases.append((k, [devs[(seed * 5 + 3) % len(devs)]]))
        cases.append((k, [devs[-1]]))
    for n in (0, 1, 5, 2, 96, 3):
        cases.append(("MetaModule", [{"k": "opt", "n": "user_defined_controllers", "v": n},
                                     {"k": "cmid", "n": f"user_defined_{max(1, n)}", "v": [3, 1, 0, 9]}] if n else
                      [{"k": "opt", "n": "user_defined_controllers", "v": 0}]))
    return cases


def hi_pass(seed, order):
    """Digest of (synth bytes, project bytes, loaded snapshot) of every case, evaluated in `order` in THIS process."""
    import hashlib

    import rv.api as rv

    cases = list(enumerate(hi_cases(seed)))
    if order == "reverse":
        cases.reverse()
    elif order == "interleaved":
        cases = cases[::2] + cases[1::2]
    out = {}
    for i, (k, devs) in cases:
        try:
            mod = deviate.build(k, devs)
            b1 = C.save(rv.Synth(mod))
            p = rv.Project()
            p.attach_module(mod)
            b2 = C.save(p)
            snap = repr(S.module(C.load_bytes(b1).module, in_project=False))
            out[str(i)] = hashlib.sha1(b1).hexdigest()[:12] + hashlib.sha1(b2).hexdigest()[:12] + hashlib.sha1(snap.encode()).hexdigest()[:12]
        except Exception as e:
            out[str(i)] = "raise:" + type(e).__name__
    return out


def history_independence(seed):
    """The bytes written for an object (and what loads back from them) must not depend on what was built /
    saved / loaded before it in the same process (a cache or memo keyed too coarsely would make them do so).
    A fixed list of cases — every type's default, two deviations per type, MetaModules with different
    user-controller counts — is evaluated in three FRESH interpreters in forward, reverse and interleaved
    order; the per-case digests of the three runs must be identical."""
    import json
    import os
    import subprocess
    import sys

    vs = []
    tables = {}
    env = dict(os.environ, PYTHONPATH=treeenv.VERIF, PYTHONHASHSEED="0")
    for order in ("forward", "reverse", "interleaved"):
        code = ("import json; from rvmc import treeenv; treeenv.setup(); from checks import c02; "
                f"print(json.dumps(c02.hi_pass({seed}, {order!r})))")
        r = subprocess.run([sys.executable, "-c", code], capture_output=True, text=True, env=env, cwd=treeenv.VERIF)
        if r.returncode != 0:
            return 0, [C.viol("history-independence-run-failed", {"order": order}, {"stderr": r.stderr[-300:]},
                              {"history_independence": True})]
        tables[order] = json.loads(r.stdout.strip().splitlines()[-1])
    cases = hi_cases(seed)
    for i, (k, devs) in enumerate(cases):
        row = {o: tables[o].get(str(i)) for o in tables}
        if len(set(row.values())) != 1:
            vs.append(C.viol("result-depends-on-process-history", {"type": k},
                             {"devs": devs, "digests": row}, {"history_independence": True}))
    return 3 * len(cases), vs[:10]


def _task(t):
    if t[0] == "resave":
        r = C.new_result()
        n, vs = resave_after_edit(t[1])
        n2, vs2 = failed_save_then_save(t[1]) if t[2] else (0, [])
        r["evals"] = n + n2
        r["violations"] = vs + vs2
        C.count(r, "resave_after_edit", n)
        C.count(r, "failed_save_plans", n2)
        return r
    if t[0] == "history-independence":
        r = C.new_result()
        n, vs = history_independence(t[1])
        r["evals"] = n
        r["violations"] = vs
        C.count(r, "history_independence_saves", n)
        return r
    tkey, seed, mode, lo, hi = t
    r = C.new_result()
    devs = deviate.module_devs(tkey, seed, spikes="all" if mode == 1 else "few", opt8="all" if mode == 1 else "few")
    if mode == 3:
        combos = [list(pr) for pr in list(deviate.pairs(deviate.reduced_devs(tkey, seed)))[lo:hi]]
    elif mode == 1:
        combos = ([[]] + [[d] for d in devs])[lo:hi]
    else:
        combos = [list(pr) for pr in list(deviate.pairs(devs, common_pairs=(tkey == 'Amplifier')))[lo:hi]]
    for c in combos:
        try:
            vs, dg = check_module_light(tkey, c) if mode == 3 else check_module(tkey, c)
        except Exception as e:
            vs, dg = [C.viol("deviation-rejected", {"type": tkey, "exc": type(e).__name__,
                                                           "rejected": rejected_dev(tkey, c)},
                             {"error": repr(e)}, {"type": tkey, "devs": c})], b""
        r["evals"] += 1
        r["digests"].add(dg)
        r["violations"] += vs[:3] if len(r["violations"]) < 60 else []
    if combos:
        r["sample"] = {"type": tkey, "devs": combos[-1]}
    return r


def run(ctx):
    treeenv.setup()
    agg = C.Agg()
    ctx.add(empty_synth())
    tasks = [("history-independence", ctx.seed)]
    from rvmc import spec as _spec

    for k in deviate.type_keys():
        tasks.append(("resave", k, bool(_spec.types()[k].options) or k in ("Generator", "MultiCtl")))
    for k in deviate.type_keys():
        n = len(deviate.module_devs(k, ctx.seed)) + 1
        for lo in range(0, n, 60):
            tasks.append((k, ctx.seed, 1, lo, min(n, lo + 60)))
    nred = 0
    for k in deviate.type_keys():
        n = sum(1 for _ in deviate.pairs(deviate.reduced_devs(k, ctx.seed)))
        nred += n
        for lo in range(0, n, 400):
            tasks.append((k, ctx.seed, 3, lo, min(n, lo + 400)))
    npairs = 0
    if ctx.thorough:
        for k in deviate.type_keys():
            devs = deviate.module_devs(k, ctx.seed, spikes="few", opt8="few")
            n = sum(1 for _ in deviate.pairs(devs, common_pairs=(k == 'Amplifier')))
            npairs += n
            step = 4000
            for lo in range(0, n, step):
                tasks.append((k, ctx.seed, 2, lo, min(n, lo + step)))
    for r in ctx.pmap(_task, tasks):
        agg.merge(r)
    ctx.add(agg.violations)
    return {
        "evaluations": agg.evals,
        "distinct_nontrivial": max(0, len(agg.digests) - 1),
        "rule": "module types x {default, every single deviation, every pair of the reduced boundary menu" + (", every compatible pair of the full menu" if ctx.thorough else "")
                + "}; each object through Synth write/read, Module.clone() and Project write/read; distinct_nontrivial = "
                  "number of distinct written byte images (synth+project) minus the default object's",
        "exhaustive": True,
        "k": 2 if ctx.thorough else 1,
        "types": len(deviate.type_keys()),
        "pairs": npairs, "pairs_of_reduced_menu": nred, "history_independence_saves": agg.counters.get("history_independence_saves", 0),
        "resave_after_inplace_edit": agg.counters.get("resave_after_edit", 0), "failed_save_plans": agg.counters.get("failed_save_plans", 0),
        "samples": agg.samples,
    }
