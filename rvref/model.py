"""Reference semantics of the rv API operations, written from the PROPERTY STATEMENTS
(properties.jsonl), not from the rv source.  Must not import rv.  Deliberately boring.
"""


# --------------------------------------------------------------------------- C07 links
class LinkModel:
    """The set of directed connections of one project.

    connect(F, T): for each f in F, each t in T, in order: if either operand is marked
    disconnecting ("~"), the pair (f, t) is removed if present; otherwise it is added if
    absent.  Nothing else changes.  A module that does not belong to the project makes the
    request fail with the ownership error.
    """

    def __init__(self, local_modules):
        self.local = set(local_modules)
        self.edges = set()

    def copy(self):
        m = LinkModel(self.local)
        m.edges = set(self.edges)
        return m

    @staticmethod
    def _items(operand):
        if isinstance(operand, list) and not (len(operand) == 2 and operand[0] == "~"):
            items = operand
        else:
            items = [operand]
        out = []
        for it in items:
            if isinstance(it, list):  # ["~", i]
                out.append((it[1], True))
            else:
                out.append((it, False))
        return out

    def connect(self, frm, to):
        """Returns "ok" or "raise:ModuleOwnershipError"."""
        for f, fd in self._items(frm):
            for t, td in self._items(to):
                if f not in self.local or t not in self.local:
                    return "raise:ModuleOwnershipError"
                if fd or td:
                    self.edges.discard((f, t))
                else:
                    self.edges.add((f, t))
        return "ok"
