"""C13 — generated module metadata agrees with the YAML format specification.

Complete field-by-field comparison of every registered module class with the YAML (read by
rvmc.spec, independent of genrv's templates), plus regeneration of all base classes from the
working tree's generator and byte comparison with the checked-in files.
"""
from enum import Enum

from checks import common as C
from rvmc import genrun, spec, treeenv

PROPERTY = "C13"
LEVEL = "exploration"
ASSUMPTIONS = [
    "the YAML is the ground truth; a wrong YAML is outside the property",
    "controllers a class defines beyond the specified list (MetaModule user-defined proxies, the Sampler's "
    "record-backed vibrato fields) must be unattached on a fresh instance so they cannot shift stored values",
]

EL_TYPES = {"unsigned short": ("H", 2), "unsigned byte": ("B", 1)}


def compare_type(tkey):
    import rv.modules as M
    from rv.controller import CompactRange, DependentRange, NoOffsetRange, Range, WarnOnlyRange
    from rv.modules import MODULE_CLASSES

    t = spec.types()[tkey]
    out = []
    n = 0

    def bad(field, exp, got, **extra):
        out.append(C.viol("spec-divergence", dict({"type": tkey, "field": field}, **extra),
                          {"expected": exp, "observed": got}, {"type": tkey}))

    def eq(field, exp, got, **extra):
        nonlocal n
        n += 1
        if exp != got or (isinstance(exp, bool) != isinstance(got, bool)):
            bad(field, exp, repr(got), **extra)

    cls = MODULE_CLASSES.get(t.type)
    if cls is None:
        bad("registered", t.type, None)
        return n, out
    eq("class-name", tkey, cls.__name__)
    eq("class-attr", True, getattr(M, tkey, None) is cls)
    eq("mtype", t.type, cls.mtype)
    eq("group", t.group, cls.mgroup)
    eq("default_flags", t.flags, cls.default_flags)
    eq("flags", t.flags, cls.flags)
    eq("name", tkey, cls.__dict__.get("name", getattr(cls, "name", None)) if tkey != "Output" else tkey)
    names = list(cls.controllers)
    eq("controller-count>=", True, len(names) >= len(t.controllers))
    inst = cls()
    for i, c in enumerate(t.controllers):
        ck = {"controller": c.name}
        if i >= len(names):
            bad("controller-missing", c.name, None, **ck)
            continue
        eq("controller-order", c.attr, names[i], **ck)
        ctl = cls.controllers[names[i]]
        eq("controller-number", i + 1, ctl.number, **ck)
        eq("controller-attached", True, bool(ctl.attached(inst)), **ck)
        vt = ctl.value_type
        if c.kind in ("range", "compact", "no_offset"):
            want_cls = {"range": Range, "compact": CompactRange, "no_offset": NoOffsetRange}[c.kind]
            eq("controller-kind", want_cls.__name__, type(vt).__name__, **ck)
            eq("controller-min", c.min, getattr(vt, "min", None), **ck)
            eq("controller-max", c.max, getattr(vt, "max", None), **ck)
            eq("controller-default", c.default, ctl.default, **ck)
        elif c.kind == "bool":
            eq("controller-kind", True, vt is bool, **ck)
            eq("controller-default", bool(c.default), ctl.default, **ck)
        elif c.kind == "enum":
            ok = isinstance(vt, type) and issubclass(vt, Enum)
            eq("controller-kind", True, ok, **ck)
            if ok:
                eq("enum-name", c.enum, vt.__name__, **ck)
                eq("enum-is-class-attr", True, getattr(cls, c.enum, None) is vt, **ck)
                eq("enum-members", {spec.enumname(k): v for k, v in c.members.items()},
                   {m.name: m.value for m in vt}, **ck)
                eq("controller-default", c.members[c.default],
                   ctl.default.value if isinstance(ctl.default, Enum) else ctl.default, **ck)
                eq("controller-default-is-member", True, isinstance(ctl.default, vt), **ck)
        elif c.kind == "dependent":
            ok = isinstance(vt, DependentRange)
            eq("controller-kind", True, ok, **ck)
            if ok:
                eq("depends-on", c.depends_on, vt.ctl_name, **ck)
                u = next(x for x in t.controllers if x.name == c.depends_on)
                want = {u.members[k]: (lo, hi) for k, (lo, hi) in c.ranges.items()}
                got = {(k.value if isinstance(k, Enum) else k): (r.min, r.max) for k, r in vt.range_map.items()}
                eq("range-table", want, got, **ck)
                eq("range-table-keys-are-members", True,
                   all(isinstance(k, getattr(cls, u.enum)) for k in vt.range_map), **ck)
                eq("range-kind", True, all(type(r) is WarnOnlyRange for r in vt.range_map.values()), **ck)
                first = next(iter(c.ranges.values()))
                eq("range-default", first, (vt.default.min, vt.default.max), **ck)
                eq("controller-default", c.default, ctl.default, **ck)
    for extra in names[len(t.controllers):]:
        n += 1
        ctl = cls.controllers[extra]
        if ctl.attached(inst):
            bad("unspecified-attached-controller", None, extra, controller=extra)
    # options
    eq("option-names", sorted(o.name for o in t.options), sorted(cls.options))
    for o in t.options:
        ok_ = {"option": o.name}
        co = cls.options.get(o.name)
        if co is None:
            continue
        eq("option-name", o.name, co.name, **ok_)
        eq("option-byte", o.byte, co.byte, **ok_)
        eq("option-bit", o.bit, co.bit, **ok_)
        eq("option-size", o.size, co.size, **ok_)
        eq("option-number", o.number, co.number, **ok_)
        eq("option-inverted", o.inverted, bool(co.inverted), **ok_)
        eq("option-exclusive", sorted(o.exclusive_of), sorted(co.exclusive_of), **ok_)
        eq("option-min", o.min, co.min, **ok_)
        eq("option-max", o.max, co.max, **ok_)
        if o.enum:
            e = getattr(cls, o.enum, None)
            eq("option-default", t.enums[o.enum][str(o.default)],
               co.default.value if isinstance(co.default, Enum) else co.default, **ok_)
            eq("option-default-is-member", True, e is not None and isinstance(co.default, e), **ok_)
        else:
            eq("option-default", o.default, co.default, **ok_)
    if t.options:
        eq("options_chnm", t.options_chnm, cls.options_chnm)
    # enums declared by the spec exist with the same members (also unused ones)
    for en, members in t.enums.items():
        e = getattr(cls, en, None)
        if e is None:
            bad("enum-missing", en, None, enum=en)
            continue
        eq("enum-members", {spec.enumname(k): v for k, v in members.items()}, {m.name: m.value for m in e}, enum=en)
    # array chunks
    for ch in t.chunks:
        if ch.get("parent_type") != "Array":
            continue
        ck = {"chunk": ch["name"]}
        cc = getattr(cls, ch["name"] + "_chunk", None)
        if cc is None:
            bad("chunk-class-missing", ch["name"], None, **ck)
            continue
        eq("chunk-chnm", ch["chnm"], cc.chnm, **ck)
        eq("chunk-length", ch.get("length") or len(ch["default"]), cc.length, **ck)
        if ch["element_type"] in EL_TYPES:
            eq("chunk-type", EL_TYPES[ch["element_type"]][0], cc.type, **ck)
            eq("chunk-element-size", EL_TYPES[ch["element_type"]][1], cc.element_size, **ck)
        if "min" in ch:
            eq("chunk-min", ch["min"], cc.min_value, **ck)
        if "max" in ch:
            eq("chunk-max", ch["max"], cc.max_value, **ck)
        if "enum" not in ch and not isinstance(ch.get("default"), dict):
            eq("chunk-default", ch.get("default"), cc.__dict__.get("default", cc.default), **ck)
        elif "enum" in ch:
            d = cc().default
            eq("chunk-default", [t.enums[ch["enum"]][str(x)] for x in ch["default"]],
               [x.value for x in d], **ck)
    return n, out


def registry_check():
    from rv.modules import MODULE_CLASSES

    want = {t.type for t in spec.types().values()}
    got = set(MODULE_CLASSES)
    vs = []
    if want != got:
        vs.append(C.viol("registry", {"field": "registered-types"},
                         {"missing": sorted(want - got), "extra": sorted(got - want)}, {"registry": True}))
    return 1, vs


def regen_check():
    import os

    files = genrun.generate()
    base = os.path.join(treeenv.SRC, "rv", "modules", "base")
    vs = []
    n = 0
    on_disk = {f for f in os.listdir(base) if f.endswith(".py") and f != "__init__.py"}
    if on_disk != set(files):
        vs.append(C.viol("regeneration", {"file": "<set>"},
                         {"only_on_disk": sorted(on_disk - set(files)), "only_generated": sorted(set(files) - on_disk)},
                         {"regen": True}))
    for f, text in files.items():
        n += 1
        p = os.path.join(base, f)
        cur = open(p).read() if os.path.exists(p) else None
        if cur != text:
            import difflib

            d = list(difflib.unified_diff((cur or "").splitlines(), text.splitlines(), "checked-in", "generated", lineterm="", n=0))
            vs.append(C.viol("regeneration", {"file": f}, {"diff": d[:12]}, {"regen": True}))
    return n, vs


def workout():
    """Uses the library the way the other checks do (loads, saves, clones, MetaModule mappings onto every
    controller kind, a file with an unknown module type, lenient loads of out-of-range values): class-level
    metadata must be the same afterwards — it is what maps stored values to controllers."""
    import rv.api as rv
    from checks import c15
    from rvref import codec

    n = 0
    for f in treeenv.fixture_files():
        o = rv.read_sunvox_file(f)
        C.load_bytes(C.save(o))
        n += 1

    class _Q:
        thorough = False
        seed = 0
    for case in c15.object_cases(_Q):
        if case["label"].startswith(("mapping", "nesting")):
            try:
                o = c15.build_object(case)
                C.load_bytes(C.save(o))
                n += 1
            except Exception:
                pass
    for tkey in spec.types():
        if tkey == "Output":
            continue
        m = getattr(rv.m, tkey)()
        for name, c in list(m.controllers.items())[:40]:
            if name.startswith("user_defined"):
                continue
            t = c.instance_value_type(m)
            if hasattr(t, "max"):
                setattr(m, name, t.max)
                setattr(m, name, t.min)
        m.clone()
        n += 1
    # legal-but-odd assignments on unit-dependent controllers (their range tables are class-level objects): values just
    # outside the range of EVERY unit, strict and lenient -- whatever the outcome, the tables must stay as specified
    from rv.errors import override_raise_controller_value_errors

    for tkey, t in spec.types().items():
        by_name = {x.name: x for x in t.controllers}
        for c in t.controllers:
            if c.kind != "dependent":
                continue
            u = by_name[c.depends_on]
            for unit, (lo, hi) in c.ranges.items():
                for strict in (True, False):
                    for v in (hi + 44, lo - 1, hi + 100000):
                        m = getattr(rv.m, tkey)()
                        try:
                            setattr(m, u.attr, u.members[unit])
                            with override_raise_controller_value_errors(strict):
                                setattr(m, c.attr, v)
                            m.clone()
                        except Exception:
                            pass
                        n += 1
    # a MetaModule BUILT in code whose user-defined controller mirrors a unit-dependent controller, then the unit of the
    # embedded module is switched through every unit (the mirrored range object may be the class-level table entry)
    for tkey, t in spec.types().items():
        by_name = {x.name: x for x in t.controllers}
        for ci, c in enumerate(t.controllers):
            if c.kind != "dependent":
                continue
            u = by_name[c.depends_on]
            try:
                mm = rv.m.MetaModule()
                inner = mm.project.new_module(getattr(rv.m, tkey))
                mm.user_defined_controllers = 1
                mp = mm.mappings.values[0]
                mp.module, mp.controller = inner.index, ci
                mm.update_user_defined_controllers()
                for unit in list(c.ranges) + list(c.ranges)[:1]:
                    setattr(inner, u.attr, u.members[unit])
                    mm.update_user_defined_controllers()
                mm.clone()
            except Exception:
                pass
            n += 1
    # a file naming a module type the specification does not have
    data = C.save(rv.Synth(rv.m.Amplifier()))
    chunks = [(cid, (b"No such type\0" if cid == b"STYP" else d)) for cid, d in codec.parse_chunks(data)]
    try:
        C.load_bytes(codec.build_chunks(chunks))
    except Exception:
        pass
    n += 1
    return n


def derived_table(redeclare=False):
    """Run in a FRESH interpreter: derive a subclass from every module class (legal; the metaclass registers every class
    that has an mtype, so the subclass becomes the class used for loading that type) and report, per type, whether the
    class now registered still carries the controller / option metadata of the specified class."""
    import rv.api as rv
    from rv.modules import MODULE_CLASSES

    out = {}
    for tkey, t in spec.types().items():
        base = MODULE_CLASSES[t.type]

        def table(cls):
            inst = cls()
            return {
                "controllers": [[n, c.number, repr(c.value_type) if not isinstance(c.value_type, type) else c.value_type.__name__,
                                 repr(getattr(inst, n))] for n, c in cls.controllers.items()],
                "options": [[n, o.byte, o.bit, o.size, bool(getattr(o, "inverted", False))] for n, o in cls.options.items()],
            }
        before = table(base)
        data = C.save(rv.Synth(base()))
        try:
            if redeclare:
                # FIRST a subclass that re-declares an inherited controller (same range, another default) -- legal, and its
                # own business; the base class and a plain sibling derived afterwards still carry the specified metadata
                from rv.controller import Controller

                name0, c0 = next(((n_, c_) for n_, c_ in base.controllers.items()
                                  if isinstance(getattr(c_.value_type, "min", None), int) and type(c_.value_type).__name__ == "Range"),
                                 (None, None))
                if name0 is not None:
                    type(base)("Redeclared" + base.__name__, (base,),
                               {"__module__": __name__, name0: Controller((c0.value_type.min, c0.value_type.max), c0.value_type.max)})
            derived = type(base)("Derived" + base.__name__, (base,), {"__module__": __name__})
            reg = MODULE_CLASSES[t.type]
            loaded = C.load_bytes(data).module
            table(reg), table(derived)
        except Exception as e:
            out[tkey] = {"same_as_before": False, "derived_same": False, "loaded_values_equal": False,
                         "error": type(e).__name__ + ": " + str(e)[:120]}
            continue
        out[tkey] = {"same_as_before": table(reg) == before and table(base) == before, "derived_same": table(derived) == before,
                     "n_before": len(before["controllers"]), "n_registered": len(table(reg)["controllers"]),
                     "loaded_controllers": len(loaded.controllers),
                     "loaded_values_equal": [repr(getattr(loaded, n)) for n in loaded.controllers] ==
                                            [row[3] for row in before["controllers"]]}
    return out


def derived_check():
    import json
    import os
    import subprocess
    import sys

    env = dict(os.environ, PYTHONPATH=treeenv.VERIF)
    vs = []
    total = 0
    for redeclare in (False, True):
        code = ("import json; from rvmc import treeenv; treeenv.setup(); from checks import c13; "
                f"print(json.dumps(c13.derived_table({redeclare})))")
        r = subprocess.run([sys.executable, "-c", code], capture_output=True, text=True, env=env, cwd=treeenv.VERIF)
        if r.returncode != 0:
            return 0, [C.viol("derived-class-run-failed", {"redeclared_first": redeclare}, {"stderr": r.stderr[-400:]}, {"derived": True})]
        tb = json.loads(r.stdout.strip().splitlines()[-1])
        total += len(tb)
        for tkey, row in tb.items():
            if not (row["same_as_before"] and row["derived_same"] and row["loaded_values_equal"]):
                vs.append(C.viol("metadata-lost-in-derived-class", {"type": tkey, "redeclared_first": redeclare}, row, {"derived": True}))
    return total, vs[:6]


def run_case(case):
    if case.get("derived"):
        return derived_check()[1]
    if case.get("after_use"):
        workout()
    if case.get("registry"):
        return registry_check()[1]
    if case.get("regen"):
        return regen_check()[1]
    return compare_type(case["type"])[1]


def run(ctx):
    treeenv.setup()
    n, vs = registry_check()
    ctx.add(vs)
    per_type = {}
    from rvmc.runner import rotate

    for tkey in rotate(list(spec.types()), ctx.seed):
        k, v = compare_type(tkey)
        per_type[tkey] = k
        n += k
        ctx.add(v)
    k, v = regen_check()
    ctx.add(v)
    # second pass AFTER the library has been used in this process
    used = workout()
    n2, vs2 = registry_check()
    for tkey in spec.types():
        kk, vv = compare_type(tkey)
        n2 += kk
        vs2 += vv
    for x in vs2:
        x["key"] = dict(x["key"], after_use=True)
        x["case"] = dict(x.get("case") or {}, after_use=True)
    ctx.add(vs2)
    n += n2
    n3, vs3 = derived_check()
    ctx.add(vs3)
    n += n3
    nctl = sum(len(t.controllers) for t in spec.types().values())
    nopt = sum(len(t.options) for t in spec.types().values())
    return {
        "evaluations": n + k,
        "distinct_nontrivial": n - 1,
        "rule": "one comparison per (type, field) of the specification against the imported classes — every type, controller, "
                "option, enum, array chunk; plus byte comparison of all regenerated base files; each comparison is a "
                "distinct (type, field) pair",
        "exhaustive": True,
        "comparisons_repeated_after_use": n2, "types_compared_after_deriving_a_subclass": n3, "workout_operations": used,
        "types": len(per_type), "controllers": nctl, "options": nopt, "regenerated_files": k,
        "samples": [{"type": "Adsr", "fields_compared": per_type.get("Adsr")},
                    {"type": "MetaModule", "fields_compared": per_type.get("MetaModule")}],
    }
