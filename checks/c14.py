"""C14 — ownership and indexing of modules and patterns stay coherent.

E-BFS over attach / new_module / += / attach_pattern / reload operations on the real Project,
starting from the empty project and from projects LOADED from reference-encoded files with
every pattern of empty positions among slots 1..4 (16 files) and the issue54 fixture.  A
reference model (slots list + ownership) is stepped in lock-step; invariants in every state.
"""
import os

from checks import common as C
from rvmc import explorer, snapshot as S, treeenv
from rvref import codec

PROPERTY = "C14"
LEVEL = "model_checking"
ASSUMPTIONS = [
    "attach_module(None) appends an empty position (this is how the reader records empty slots)",
    "trailing empty module positions disappear on save/load (N1); the model applies the same rule on `reload`",
    "files whose position 0 is empty are not well-formed projects and are not used as initial states",
    "a project to which a second Output() was attached is checked for the invariants but is never saved/reloaded "
    "(Output is not one of the 42 attachable types)",
]

GAP_MASKS = list(range(16))


def gap_file(mask):
    """Reference-encoded project with modules at slots 1..4 where bit i of mask marks slot i+1 EMPTY."""
    treeenv.setup()
    import rv.api as rv

    base = codec.decode(C.save(_two_module_project())).value
    out_mod, amp = base["modules"][0], base["modules"][1]
    mods = [out_mod]
    for i in range(4):
        if mask >> i & 1:
            mods.append(None)
        else:
            m = dict(amp)
            m["name"] = f"amp{i + 1}"
            mods.append(m)
    # trailing empty positions STAY in the file (the program writes them while higher slots were once in use); the loaded
    # project does not show them (N1), and attaching afterwards must behave as for any other project
    base["modules"] = mods
    return codec.encode(base)


_LAYOUT = {}


def fixture_layout(name):
    """Slot layout of a fixture as seen by the INDEPENDENT decoder (class name per slot)."""
    if name not in _LAYOUT:
        from rvmc import spec

        by_type = {t.type: k for k, t in spec.types().items()}
        d = os.path.join(treeenv.FIXTURES, name)
        f = sorted(x for x in os.listdir(d) if x.endswith(".sunvox"))[0]
        v = codec.decode(open(os.path.join(d, f), "rb").read()).value
        mods = [None if m is None else by_type[m["type"]] for m in v["modules"]]
        pats = [None if x is None else ("Pattern" if x["kind"] == "pattern" else "PatternClone") for x in v["patterns"]]
        _LAYOUT[name] = (mods, pats)
    mods, pats = _LAYOUT[name]
    return list(mods), list(pats)


def _two_module_project():
    import rv.api as rv

    p = rv.Project()
    p.new_module(rv.m.Amplifier)
    return p


def ops():
    o = [{"op": "init_gaps", "mask": m} for m in GAP_MASKS]
    o.append({"op": "init_fixture", "file": "issue54"})
    o += [
        {"op": "new_module", "T": "Amplifier"},
        {"op": "new_module", "T": "Generator"},
        {"op": "attach_fresh"},
        {"op": "attach_again", "i": 0},
        {"op": "attach_again", "i": 1},
        {"op": "attach_again", "i": 2},
        {"op": "attach_foreign"},
        {"op": "attach_none"},
        {"op": "attach_output"},
        {"op": "iadd_module"},
        {"op": "iadd_list"},
        {"op": "iadd_list_dup"},
        {"op": "iadd_list_refused"},
        {"op": "iadd_list_mixed"},
        {"op": "attach_pattern", "what": "fresh"},
        {"op": "attach_pattern", "what": "foreign"},
        {"op": "attach_pattern", "what": "foreign_clone"},
        {"op": "attach_pattern", "what": "none"},
        {"op": "attach_pattern", "what": "clone"},
        {"op": "bulk", "how": "gen_partial"},
        {"op": "bulk", "how": "fn"},
        {"op": "reload"},
    ]
    return o


N_INIT = len(GAP_MASKS) + 1


class Own:
    def __init__(self):
        self.ops = ops()

    # ---------------------------------------------------------------- implementation
    def fresh(self):
        import rv.api as rv

        L = {"p": rv.Project(), "viol": [], "pristine": True}
        q = rv.Project()
        L["q"] = q
        L["qmod"] = q.new_module(rv.m.Amplifier)
        L["qpat"] = rv.Pattern(tracks=1, lines=1)
        q.attach_pattern(L["qpat"])
        L["qclone"] = rv.PatternClone(source=0)
        q.attach_pattern(L["qclone"])
        return L

    def apply(self, L, op):
        import rv.api as rv
        from rv.errors import ModuleOwnershipError, PatternOwnershipError
        from rv.modules.output import Output

        p = L["p"]
        k = op["op"]
        L["viol"] = []
        before_mods = list(p.modules)
        before_pats = list(p.patterns)
        new_obj = None
        outcome = "ok"
        expect_same = True
        if k in ("init_gaps", "init_fixture"):
            if not L["pristine"]:
                return "skip"
            if k == "init_gaps":
                L["p"] = C.load_bytes(gap_file(op["mask"]))
            else:
                d = os.path.join(treeenv.FIXTURES, op["file"])
                f = sorted(x for x in os.listdir(d) if x.endswith(".sunvox"))[0]
                L["p"] = rv.read_sunvox_file(os.path.join(d, f))
            L["pristine"] = False
            L["origin"] = "loaded"
            return "ok"
        L["pristine"] = False
        try:
            if k == "new_module":
                new_obj = p.new_module(getattr(rv.m, op["T"]))
            elif k == "attach_fresh":
                new_obj = rv.m.Amplifier()
                r = p.attach_module(new_obj)
                if r is not new_obj:
                    L["viol"].append(C.viol("attach-returns-other-object", {"op": k}, {}))
            elif k == "attach_again":
                if op["i"] >= len(p.modules) or p.modules[op["i"]] is None:
                    return "skip"
                p.attach_module(p.modules[op["i"]])
            elif k == "attach_foreign":
                sq = S.project(L["q"])
                sp = S.project(p)
                try:
                    p.attach_module(L["qmod"])
                    outcome = "accepted"
                except ModuleOwnershipError:
                    outcome = "raise:ModuleOwnershipError"
                if S.diff(sq, S.project(L["q"])) or S.diff(sp, S.project(p)) or L["qmod"].parent is not L["q"]:
                    L["viol"].append(C.viol("refused-attach-changes-state", {"op": k}, {}))
            elif k == "attach_none":
                p.attach_module(None)
                expect_same = False
                if p.modules[:-1] != before_mods or p.modules[-1] is not None:
                    L["viol"].append(C.viol("attach-none-placement", {"op": k}, {}))
            elif k == "attach_output":
                new_obj = Output()
                p.attach_module(new_obj)
            elif k == "iadd_module":
                new_obj = rv.m.Amplifier()
                p2 = p
                p2 += new_obj
                if p2 is not p:
                    L["viol"].append(C.viol("iadd-returns-other-object", {"op": k}, {}))
            elif k == "iadd_list":
                new_obj = rv.m.Amplifier()
                pat = rv.Pattern(tracks=1, lines=1)
                pat2 = rv.Pattern(tracks=1, lines=1)       # a DIFFERENT pattern whose attributes are all equal to pat's
                p += [new_obj, pat, pat2]
                if len(p.patterns) < 2 or p.patterns[-2] is not pat or p.patterns[-1] is not pat2 \
                        or pat.project is not p or pat2.project is not p:
                    L["viol"].append(C.viol("iadd-pattern", {"op": k}, {"patterns_added": len(p.patterns) - len(before_pats)}))
                before_pats = before_pats + [pat, pat2]
            elif k == "iadd_list_refused":
                # a list whose LAST item is refused, after items that are already part of this project: they stay where
                # they are (a refusal must not release anything the request did not attach)
                sq = S.project(L["q"])
                sp = S.project(p)
                lst = [m_ for m_ in p.modules if m_ is not None][:2] + [L["qmod"]]
                try:
                    p += lst
                    outcome = "accepted"
                except ModuleOwnershipError:
                    outcome = "raise:ModuleOwnershipError"
                if S.diff(sq, S.project(L["q"])) or S.diff(sp, S.project(p)) or L["qmod"].parent is not L["q"]:
                    L["viol"].append(C.viol("refused-attach-changes-state", {"op": k}, {}))
            elif k == "iadd_list_mixed":
                # a list naming modules that are ALREADY part of this project (a no-op for them) before a new one
                new_obj = rv.m.Amplifier()
                p += [m_ for m_ in p.modules if m_ is not None][:2] + [new_obj]
            elif k == "iadd_list_dup":
                # the same (new) module named twice in one list, another new module in between
                new_obj = rv.m.Amplifier()
                other = rv.m.Generator()
                p += [new_obj, other, new_obj]
                if sum(1 for x in p.modules if x is new_obj) != 1 or sum(1 for x in p.modules if x is other) != 1:
                    L["viol"].append(C.viol("module-attached-twice", {"op": k}, {"layout": [type(x).__name__ if x else None for x in p.modules]}))
                new_obj = None
                expect_same = False
            elif k == "attach_pattern":
                w = op["what"]
                if w in ("foreign", "foreign_clone"):
                    sq = S.project(L["q"])
                    sp = S.project(p)
                    fp = L["qpat"] if w == "foreign" else L["qclone"]
                    try:
                        p.attach_pattern(fp)
                        outcome = "accepted"
                    except PatternOwnershipError:
                        outcome = "raise:PatternOwnershipError"
                    if S.diff(sq, S.project(L["q"])) or S.diff(sp, S.project(p)) or fp.project is not L["q"]:
                        L["viol"].append(C.viol("refused-attach-changes-state", {"op": "attach_pattern_" + w}, {}))
                else:
                    pat = rv.Pattern(tracks=2, lines=2) if w == "fresh" else rv.PatternClone(source=0) if w == "clone" else None
                    idx = p.attach_pattern(pat)
                    if idx != len(before_pats) or p.patterns[:-1] != before_pats or p.patterns[-1] is not pat:
                        L["viol"].append(C.viol("pattern-placement", {"what": w}, {"index": idx}))
                    before_pats = before_pats + [pat]
            elif k == "bulk":
                from rv.note import Note
                from rv.pattern import Pattern

                pats = [x for x in p.patterns if isinstance(x, Pattern)]
                if not pats:
                    return "skip"
                if op["how"] == "fn":
                    pats[0].set_via_fn(lambda pat, line, track: Note(module=1))
                else:
                    def gen(pat, data):
                        yield 0, 0, Note(module=2)
                    pats[0].set_via_gen(gen)
            elif k == "reload":
                if sum(1 for x in p.modules if isinstance(x, Output)) > 1:
                    return "skip"  # a project with a second Output is not a savable in-domain project
                from rv.pattern import Pattern

                def cell_modules(proj):
                    return [[[n.module for n in line] for line in x.data] if isinstance(x, Pattern) else None
                            for x in proj.patterns]
                want_cells = cell_modules(p)
                L["p"] = C.load_bytes(C.save(p))
                L["origin"] = "loaded"
                # which module each cell names is part of the ownership picture: it must survive the reload, also for a
                # cell that carries nothing but a module number
                got_cells = cell_modules(L["p"])
                while want_cells and want_cells[-1] is None:
                    want_cells.pop()
                while got_cells and got_cells[-1] is None:
                    got_cells.pop()
                if got_cells != want_cells:
                    L["viol"].append(C.viol("note-module-numbers-changed-by-reload", {"op": k}, {"before": want_cells, "after": got_cells}))
                return "ok"
        except (ModuleOwnershipError, PatternOwnershipError) as e:
            outcome = "raise:" + type(e).__name__
        # placement rule for a newly attached module
        if new_obj is not None and outcome == "ok":
            if None in before_mods:
                want = before_mods.index(None)
                exp = list(before_mods)
                exp[want] = new_obj
            else:
                want = len(before_mods)
                exp = before_mods + [new_obj]
            same = len(exp) == len(p.modules) and all(a is b for a, b in zip(exp, p.modules))
            if not same or new_obj.index != want or new_obj.parent is not p:
                L["viol"].append(C.viol("module-placement", {"op": k, "gap": None in before_mods},
                                        {"expected_index": want, "index": new_obj.index,
                                         "layout": [type(m).__name__ if m else None for m in p.modules]}))
        elif expect_same and k not in ("attach_none", "iadd_list_dup"):
            if len(p.modules) != len(before_mods) or any(a is not b for a, b in zip(p.modules, before_mods)):
                L["viol"].append(C.viol("modules-moved", {"op": k}, {}))
        if k != "iadd_list" and not k.startswith("attach_pattern") and k != "bulk":
            if len(p.patterns) != len(before_pats) or any(a is not b for a, b in zip(p.patterns, before_pats)):
                L["viol"].append(C.viol("patterns-changed", {"op": k}, {}))
        return outcome

    def layout(self, L):
        p = L["p"]
        return (tuple(type(m).__name__ if m is not None else None for m in p.modules),
                tuple(type(x).__name__ if x is not None else None for x in p.patterns))

    def canon(self, L):
        """Layout PLUS how the project object was obtained (built / loaded) and every private scalar
        attribute of the project: two states with the same layout may still differ in hidden
        bookkeeping (a cached count, a flag), and merging them would hide exactly the histories
        that go through save/load.  Over-fine canonical forms only cost time."""
        p = L["p"]
        hidden = tuple(sorted((k, v) for k, v in vars(p).items()
                              if k.startswith("_") and isinstance(v, (int, bool, str, type(None)))))
        from rv.pattern import Pattern

        # ... and the module number every cell carries (a bulk edit changes nothing else; without it the state after
        # a bulk edit would be merged with the one before and never be reloaded)
        cells = tuple(tuple(n.module for line in x.data for n in line) if isinstance(x, Pattern) else None
                      for x in p.patterns)
        return self.layout(L) + (L.get("origin", "built"), hidden, cells)

    def invariant(self, L):
        from rv.modules.output import Output
        from rv.pattern import Pattern

        p = L["p"]
        vs = []
        for i, m in enumerate(p.modules):
            if m is None:
                continue
            if m.index != i:
                vs.append(C.viol("index-mismatch", {"inv": "index"}, {"position": i, "index": m.index}))
            if m.parent is not p:
                vs.append(C.viol("parent-mismatch", {"inv": "parent"}, {"position": i}))
        if not p.modules or p.modules[0] is not p.output or not isinstance(p.output, Output):
            vs.append(C.viol("output-not-at-0", {"inv": "output"}, {}))
        for i, x in enumerate(p.patterns):
            if x is not None and x.project is not p:
                vs.append(C.viol("pattern-project-mismatch", {"inv": "pattern"}, {"position": i}))
        # note.mod resolution for every module number 0..len+1
        pats = [x for x in p.patterns if isinstance(x, Pattern)]
        for pat in pats:
            for line in pat.data:
                for nt0 in line:
                    keep0 = nt0.module
                    for num in (0, 1, len(p.modules), len(p.modules) + 1):
                        nt0.module = num
                        want = None if num == 0 or num - 1 >= len(p.modules) else p.modules[num - 1]
                        try:
                            got = nt0.mod
                        except Exception as e:
                            vs.append(C.viol("note-mod-raises", {"inv": "note.mod", "cell": "any"}, {"number": num, "error": repr(e)}))
                            break
                        if got is not want:
                            vs.append(C.viol("note-mod-resolution", {"inv": "note.mod", "cell": "any"}, {"number": num}))
                            break
                    nt0.module = keep0
        if pats:
            nt = pats[0].data[0][0]
            keep = nt.module
            for num in range(0, len(p.modules) + 2):
                nt.module = num
                want = None if num == 0 or num - 1 >= len(p.modules) else p.modules[num - 1]
                try:
                    got = nt.mod
                except Exception as e:
                    vs.append(C.viol("note-mod-raises", {"inv": "note.mod"}, {"number": num, "error": repr(e)}))
                    continue
                if got is not want:
                    vs.append(C.viol("note-mod-resolution", {"inv": "note.mod"}, {"number": num}))
            for m in p.modules:
                if m is None:
                    continue
                nt.mod = m
                if nt.module != m.index + 1 or nt.mod is not m:
                    vs.append(C.viol("note-mod-setter", {"inv": "note.mod"}, {"index": m.index, "module": nt.module}))
            # a note that is not (yet) in any pattern, or whose pattern is not attached, can be pointed at an attached
            # module: the number is stored and resolves once the pattern is attached
            from rv.note import Note as _Note
            from rv.pattern import Pattern as _Pattern

            target = next((m for m in p.modules if m is not None), None)
            if target is not None:
                loose_pat = _Pattern(tracks=1, lines=1)
                for label, n2 in (("free-standing", _Note()), ("in-unattached-pattern", loose_pat.data[0][0])):
                    try:
                        n2.mod = target
                        if n2.module != target.index + 1:
                            vs.append(C.viol("note-mod-setter", {"inv": "note.mod", "note": label}, {"module": n2.module, "index": target.index}))
                    except Exception as e:
                        vs.append(C.viol("note-mod-setter-raises", {"inv": "note.mod", "note": label, "exc": type(e).__name__}, {}))
            # a module that no project owns cannot be referenced, whatever index it happens to carry
            import rv.api as rv
            from rv.errors import ModuleOwnershipError

            for label, stray in (("plain", rv.m.Amplifier()), ("with-index", rv.m.Amplifier(index=1))):
                nt.module = keep
                try:
                    nt.mod = stray
                    vs.append(C.viol("note-mod-setter-accepts-unowned-module", {"inv": "note.mod", "module": label}, {"module_number": nt.module}))
                except ModuleOwnershipError:
                    pass
                except Exception as e:
                    vs.append(C.viol("note-mod-setter-wrong-error", {"inv": "note.mod", "module": label, "exc": type(e).__name__}, {}))
            nt.module = keep
        return vs

    # ---------------------------------------------------------------- model
    def model_fresh(self):
        return {"mods": ["Output"], "pats": [], "pristine": True}

    def model_apply(self, m, op):
        k = op["op"]
        if k == "init_gaps":
            if not m["pristine"]:
                return "skip"
            m["pristine"] = False
            mods = ["Output"] + [None if op["mask"] >> i & 1 else "Amplifier" for i in range(4)]
            while mods[-1] is None:
                mods.pop()
            m["mods"] = mods
            return "ok"
        if k == "init_fixture":
            if not m["pristine"]:
                return "skip"
            m["pristine"] = False
            m["mods"], m["pats"] = fixture_layout(op["file"])
            return "ok"
        m["pristine"] = False
        mods = m["mods"]

        def place(t):
            if None in mods:
                mods[mods.index(None)] = t
            else:
                mods.append(t)

        if k == "new_module":
            place(op["T"])
        elif k in ("attach_fresh", "iadd_module", "iadd_list_mixed"):
            place("Amplifier")
        elif k == "iadd_list":
            place("Amplifier")
            m["pats"].append("Pattern")
            m["pats"].append("Pattern")
        elif k == "iadd_list_refused":
            return "raise:ModuleOwnershipError"
        elif k == "iadd_list_dup":
            place("Amplifier")
            place("Generator")
        elif k == "attach_output":
            place("Output")
        elif k == "attach_again":
            if op["i"] >= len(mods) or mods[op["i"]] is None:
                return "skip"
        elif k == "attach_foreign":
            return "raise:ModuleOwnershipError"
        elif k == "attach_none":
            mods.append(None)
        elif k == "attach_pattern":
            w = op["what"]
            if w in ("foreign", "foreign_clone"):
                return "raise:PatternOwnershipError"
            m["pats"].append({"fresh": "Pattern", "clone": "PatternClone", "none": None}[w])
        elif k == "bulk":
            if "Pattern" not in m["pats"]:
                return "skip"
        elif k == "reload":
            if mods.count("Output") > 1:
                return "skip"
            while mods and mods[-1] is None:
                mods.pop()
        return "ok"

    def compare(self, L, m, op, outcome, expected):
        vs = list(L["viol"])
        opk = op["op"] + (":" + str(op.get("what")) if "what" in op else "")
        if outcome != expected:
            vs.append(C.viol("outcome", {"op": opk}, {"expected": expected, "observed": outcome}))
        mods, pats = self.layout(L)
        if m["mods"] is None:
            m["mods"] = list(mods)
            m["pats"] = list(pats)
        if list(mods) != m["mods"] or list(pats) != m["pats"]:
            vs.append(C.viol("layout-vs-model", {"op": opk},
                             {"expected": [m["mods"], m["pats"]], "observed": [list(mods), list(pats)]}))
        return vs


def replay_history(hist):
    sysm = Own()
    sysm.ops = hist
    L = sysm.fresh()
    m = sysm.model_fresh()
    vs = []
    for i, op in enumerate(hist):
        try:
            outcome = sysm.apply(L, op)
        except Exception as e:
            outcome = "crash:" + type(e).__name__
        exp = sysm.model_apply(m, op)
        step = sysm.compare(L, m, op, outcome, exp) + sysm.invariant(L)
        for v in step:
            v["case"] = {"history": hist[: i + 1]}
        vs += step
        if step:
            break
    return vs


def reference_files():
    """Files written by the INDEPENDENT encoder (documented cell layout: note, velocity, module number at offset 2,
    controller/effect word, parameter word): after loading, every cell's module number is the documented one and
    `note.mod` is the module at that position (or None) -- for layouts with and without empty module positions."""
    from rvref import absdev, codec

    vs, n = [], 0
    for layout in ([1, 1, 1], [1, 0, 1], [0, 0, 1], [1, 1, 0, 0, 1]):
        mods = [absdev.make_output()] + [absdev.build_module("Amplifier", [], in_project=True) if x else None for x in layout]
        pat = absdev.make_pattern()
        lines, tracks = len(pat["cells"]), len(pat["cells"][0])
        numbers = list(range(0, len(mods) + 2))
        k = 0
        for l in range(lines):
            for t in range(tracks):
                num = numbers[k % len(numbers)]
                k += 1
                # every other field distinct from the module number, so that a transposed field is visible
                pat["cells"][l][t] = [1 + (k % 100), 1 + k, num, 0x0300 + 17 * k, 0x1200 + k]
        data = codec.encode(absdev.make_project(name="ref", modules=mods, patterns=[pat]))
        case = {"reference_file": layout}
        try:
            p = C.load_bytes(data)
        except Exception as e:
            vs.append(C.viol("reference-file-not-loadable", {"exc": type(e).__name__}, {"error": repr(e)[:200]}, case))
            continue
        pt = p.patterns[0]
        for l in range(lines):
            for t in range(tracks):
                n += 1
                want_num = pat["cells"][l][t][2]
                nt = pt.data[l][t]
                want_mod = None if want_num == 0 or want_num - 1 >= len(p.modules) else p.modules[want_num - 1]
                try:
                    got_mod = nt.mod
                except Exception as e:
                    vs.append(C.viol("note-mod-raises", {"inv": "note.mod", "origin": "reference-file"}, {"error": repr(e)[:120]}, case))
                    continue
                if nt.module != want_num or got_mod is not want_mod:
                    vs.append(C.viol("note-module-of-reference-file", {"layout": "".join(map(str, layout))},
                                     {"cell": [l, t], "documented_number": want_num, "loaded_number": nt.module}, case))
    return n, vs[:6]


def run_case(case):
    if "reference_file" in case:
        return [v for v in reference_files()[1] if v["case"] == case]
    return replay_history(case["history"])


def run(ctx):
    treeenv.setup()
    sysm = Own()
    depth = 5 if ctx.thorough else 4
    from rvmc.runner import rotate

    body = rotate(range(N_INIT, len(sysm.ops)), ctx.seed)
    res = explorer.bfs(ctx, sysm, depth, op_indices=body, chunk=4,
                       init_histories=[()] + [(i,) for i in range(N_INIT)])
    ctx.add(res.violations)
    n_ref, v_ref = reference_files()
    ctx.add(v_ref)
    return {
        "cells_of_reference_encoded_files": n_ref,
        "states": res.states,
        "transitions": res.transitions,
        "traces_validated_against_impl": res.transitions,
        "exhaustive": not res.capped,
        "depth_completed": res.depth_completed,
        "initial_states": 1 + N_INIT,
        "ops": len(body),
        "states_per_level": res.levels,
        "outcomes": res.outcomes,
        "samples": [{"history": [sysm.ops[3], sysm.ops[N_INIT], sysm.ops[N_INIT + 7], sysm.ops[N_INIT + 2]]},
                    {"history": [sysm.ops[N_INIT + 7], sysm.ops[N_INIT + 7], sysm.ops[N_INIT + 1], sysm.ops[-1]]}],
        "rule": "explicit-state BFS, reference model of slot layout and ownership stepped on every transition",
    }
