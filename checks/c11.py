"""C11 — module options pack into disjoint bits and read back exactly.

Complete enumeration over the 5 option-bearing types / 49 options:
 (a) bit ranges pairwise disjoint, for the YAML and for the classes;
 (b) every representable value of every option x every value of every OTHER option (all
     pairs, complete), through both writers; value read after load == value set; the bytes of
     the options record carry each option at its declared place (inverted options stored
     complemented) and the record covers the highest option byte;
 (c) full assignments: all-off, all-on, alternating, every assignment of each 6-option window
     of 1-bit options;
 (d) E-BFS depth 3 over assignments to exclusive / inverted options: never both on;
 (e) bounded options: every integer -2..258 reads back clamp(v, min, max).
"""
import itertools

from checks import common as C
from rvmc import spec, treeenv
from rvref import codec

PROPERTY = "C11"
LEVEL = "exploration"
ASSUMPTIONS = [
    "the YAML gives each option's byte/bit/size/inversion/exclusivity/bounds",
    "enum-valued options compare by integer value, 1-bit options as booleans (N6)",
    "the options record is read from the written bytes by rvref.codec (independent of rv)",
]


def cls_of(tkey):
    import rv.modules as M

    return getattr(M, tkey)


def opt_types():
    return [k for k, t in spec.types().items() if t.options]


def values_of(o, seed=0):
    if o.min is not None and o.max is not None:
        return sorted({o.min, o.min + 1, (o.min + o.max) // 2, o.max - 1, o.max})
    return list(range(2 ** o.size))


def partner_values(o):
    if o.min is not None and o.max is not None:
        return [o.min, o.max]
    if o.size >= 8:
        return [0, 0xAA, 0xFF]
    return list(range(2 ** o.size))


def logical_expected(t, assignments):
    """Reference semantics of a sequence of option assignments (from the property text):
    clamp bounded options, 1-bit options are booleans, exclusive partners are switched off."""
    state = {}
    for o in t.options:
        d = o.default
        if isinstance(d, str):
            d = 0  # enum default named in the YAML; value compared by int below only if assigned
        state[o.name] = int(d) if d is not None else 0
    byname = {o.name: o for o in t.options}
    for name, v in assignments:
        o = byname[name]
        if o.min is not None and o.max is not None:
            v = max(o.min, min(o.max, v))
        elif o.size == 1:
            v = int(bool(v))
        state[name] = v
        for other in o.exclusive_of:
            # the property only demands "never both on": switching the partner off when this
            # option is switched OFF is not required and not forbidden -> value left open
            state[other] = 0 if (o.size == 1 and v) else None
    return state


def check_assignment(tkey, assignments, contexts=("synth", "project")):
    """Apply assignments in order to a fresh module; save/load in each context."""
    import rv.api as rv

    t = spec.types()[tkey]
    byname = {o.name: o for o in t.options}
    vs = []
    case = {"type": tkey, "assign": [list(a) for a in assignments]}
    names = [a[0] for a in assignments]
    key = {"type": tkey, "options": sorted(set(names))[:2]}
    m = cls_of(tkey)()
    for name, v in assignments:
        setattr(m, name, v)
    exp = logical_expected(t, assignments)
    assigned = set(names)
    touched = set(assigned)
    for n in assigned:
        touched |= set(byname[n].exclusive_of)
    # exclusivity in the live object
    for o in t.options:
        for other in o.exclusive_of:
            if getattr(m, o.name) and getattr(m, other):
                vs.append(C.viol("exclusive-both-on", dict(key, pair=sorted([o.name, other])), {}, case))
    for n in touched:
        got = int(getattr(m, n))
        if exp[n] is not None and got != exp[n]:
            vs.append(C.viol("live-value", dict(key, option=n), {"expected": exp[n], "observed": got}, case))
    before = {o.name: int(getattr(m, o.name)) for o in t.options}
    b = b""
    for ctx in contexts:
        if ctx == "synth":
            b = C.save(rv.Synth(m))
            l = C.load_bytes(b).module
            dec = codec.decode(b).value["module"]
        else:
            p = rv.Project()
            p.attach_module(m)
            b = C.save(p)
            l = C.load_bytes(b).modules[1]
            dec = codec.decode(b).value["modules"][1]
            p.modules[1] = None
            m.parent = None
            m.index = None
        for o in t.options:
            got = int(getattr(l, o.name))
            if got != before[o.name]:
                vs.append(C.viol("roundtrip", dict(key, option=o.name, ctx=ctx),
                                 {"set": before[o.name], "loaded": got}, case))
        raw = dec["options_raw"]
        if raw is None:
            vs.append(C.viol("options-chunk-missing", dict(key, ctx=ctx), {}, case))
            continue
        need = max(o.byte for o in t.options) + 1
        if len(raw) < need:
            vs.append(C.viol("record-too-short", dict(key, ctx=ctx), {"len": len(raw), "need": need}, case))
            continue
        for o in t.options:
            stored = (raw[o.byte] >> o.bit) & (2 ** o.size - 1)
            logical = before[o.name]
            want = (1 - logical) if (o.inverted and o.size == 1) else (logical & (2 ** o.size - 1))
            if stored != want:
                vs.append(C.viol("stored-bits", dict(key, option=o.name, ctx=ctx),
                                 {"stored": stored, "expected": want, "raw": raw.hex()}, case))
        # no stray bits outside declared ranges
        mask = [0] * len(raw)
        for o in t.options:
            mask[o.byte] |= (2 ** o.size - 1) << o.bit
        stray = [i for i in range(len(raw)) if raw[i] & ~mask[i] & 0xFF]
        if stray:
            vs.append(C.viol("stray-bits", dict(key, ctx=ctx), {"raw": raw.hex(), "bytes": stray}, case))
    return vs, C.h8(b)


def second_generation(tkey, oname):
    """set v1 -> save/load -> set v2 ON THE LOADED module -> save/load: reads v2, every other option unchanged
    (a writer that merges into bytes remembered from the load would keep stale bits)."""
    import rv.api as rv

    t = spec.types()[tkey]
    o = next(x for x in t.options if x.name == oname)
    vs = []
    n = 0
    vals = values_of(o)
    if len(vals) > 8:                      # 8-bit options: every bit pattern class, not every value pair
        vals = sorted({0, 1, 2, 0x55, 0xAA, 0x7F, 0x80, 0xFE, 0xFF} & set(vals)) or vals[:8]
    for v1 in vals:
        for v2 in vals:
            if v1 == v2:
                continue
            for how in ("load", "clone"):
                n += 1
                case = {"type": tkey, "second_generation": [oname, v1, v2, how]}
                m = cls_of(tkey)()
                setattr(m, oname, v1)
                l = C.load_bytes(C.save(rv.Synth(m))).module if how == "load" else m.clone()
                others = {x.name: int(getattr(l, x.name)) for x in t.options if x.name != oname and x.name not in o.exclusive_of}
                setattr(l, oname, v2)
                l2 = C.load_bytes(C.save(rv.Synth(l))).module
                exp = logical_expected(t, [(oname, v2)])[oname]
                got = int(getattr(l2, oname))
                if got != exp:
                    vs.append(C.viol("edit-of-loaded-option-lost", {"type": tkey, "option": oname, "how": how},
                                     {"first": v1, "second": v2, "read": got}, case))
                now = {k: int(getattr(l2, k)) for k in others}
                if now != others:
                    vs.append(C.viol("edit-of-loaded-option-changes-others", {"type": tkey, "option": oname, "how": how},
                                     {"before": others, "after": now}, case))
    return n, vs


def _with_option_record(tkey, edit):
    """A stand-alone file of a default module of the type whose options record (CHDT after the CHNM naming the
    options chunk) is replaced by edit(record)."""
    from struct import unpack

    import rv.api as rv
    from rvref import codec

    t = spec.types()[tkey]
    chunks = codec.parse_chunks(C.save(rv.Synth(cls_of(tkey)())))
    out, cur = [], None
    for cid, d in chunks:
        if cid == b"CHNM" and len(d) == 4:
            (cur,) = unpack("<I", d)
        elif cid == b"CHDT" and cur == t.options_chnm:
            d = edit(d)
            cur = None
            if d is None:            # no options record at all: the CHNM naming it goes, too
                out.pop()
                continue
        out.append((cid, d))
    return codec.build_chunks(out)


def foreign_records(tkey):
    """Modules LOADED from files whose options record is not what this library writes -- shorter (older layouts: every
    length 0 .. full-1) or with both bits of an exclusive pair set -- and then edited through the API: the edited value
    survives the next save/load, the next record covers the highest option byte, and the assigned option and its
    exclusive partner are never both on."""
    import rv.api as rv
    from struct import unpack
    from rvref import codec

    t = spec.types()[tkey]
    vs, n = [], 0
    top_byte = max(o.byte for o in t.options)

    def record_len(data):
        cur = None
        for cid, d in codec.parse_chunks(data):
            if cid == b"CHNM" and len(d) == 4:
                (cur,) = unpack("<I", d)
            elif cid == b"CHDT" and cur == t.options_chnm:
                return len(d)
        return None

    full = record_len(C.save(rv.Synth(cls_of(tkey)())))
    for length in [-1] + list(range(0, full)):
        data = _with_option_record(tkey, (lambda d: d[:length]) if length >= 0 else (lambda d: None))
        absent = length < 0      # no record at all: the constructor's defaults stay (no "missing bytes are zero" demand)
        length = max(length, 0)
        # bytes the shorter record does not have are ZERO (the documentation pads the record with zeros): options stored
        # there read as the logical value of a stored 0, not as whatever the constructor put there
        try:
            m0 = C.load_bytes(data).module
            for o in t.options:
                if o.byte >= length and not absent:
                    n += 1
                    want0 = logical_expected(t, [])
                    z = (1 if o.inverted else 0) if o.size == 1 else max(o.min or 0, 0)
                    got0 = int(getattr(m0, o.name))
                    if got0 != z:
                        vs.append(C.viol("absent-option-byte-not-zero", {"type": tkey, "option": o.name},
                                         {"loaded_record_bytes": length, "read": got0, "expected": z},
                                         {"type": tkey, "foreign_record": ["short", length, o.name]}))
        except Exception:
            pass
        for o in t.options:
            n += 1
            case = {"type": tkey, "foreign_record": ["absent" if absent else "short", length, o.name]}
            try:
                m = C.load_bytes(data).module
            except Exception as e:
                # older files carry shorter records (13 bytes in the repository's own fixtures): they must load
                vs.append(C.viol("short-options-record-not-loadable", {"type": tkey, "exc": type(e).__name__},
                                 {"loaded_record_bytes": length, "error": repr(e)[:160]}, case))
                break
            v = 1 if o.size == 1 else (o.max if o.max is not None else 2 ** o.size - 1)
            if o.inverted and o.size == 1:
                v = 0 if getattr(m, o.name) else 1
            setattr(m, o.name, v)
            want = int(getattr(m, o.name))
            b2 = C.save(rv.Synth(m))
            got = int(getattr(C.load_bytes(b2).module, o.name))
            if got != want:
                vs.append(C.viol("edit-after-short-record-lost", {"type": tkey, "option": o.name},
                                 {"loaded_record_bytes": length, "assigned": v, "object": want, "read": got}, case))
            # ... and the save after that one (nothing assigned in between), and the save of a clone
            for label, again in (("second-save", lambda: C.save(rv.Synth(m))), ("save-of-clone", lambda: C.save(rv.Synth(m.clone())))):
                b3 = again()
                got3 = int(getattr(C.load_bytes(b3).module, o.name))
                if got3 != want:
                    vs.append(C.viol("edit-after-short-record-lost", {"type": tkey, "option": o.name, "save": label},
                                     {"loaded_record_bytes": length, "assigned": v, "object": want, "read": got3}, case))
            rl = record_len(b2)
            if rl is None or rl <= top_byte:
                vs.append(C.viol("record-does-not-cover-highest-byte", {"type": tkey, "after": "short-record"},
                                 {"loaded_record_bytes": length, "written_record_bytes": rl, "highest_option_byte": top_byte}, case))
    for o in t.options:
        for other in o.exclusive_of:
            p = next(x for x in t.options if x.name == other)

            def both(d, o=o, p=p):
                d = bytearray(d)
                d[o.byte] |= 1 << o.bit
                d[p.byte] |= 1 << p.bit
                return bytes(d)
            data = _with_option_record(tkey, both)
            for target, val in ((o.name, True), (other, True), (o.name, 1), (o.name, False)):
                n += 1
                case = {"type": tkey, "foreign_record": ["both-bits", o.name, other, target]}
                m = C.load_bytes(data).module
                setattr(m, target, val)
                l = C.load_bytes(C.save(rv.Synth(m))).module
                for who, x in (("live", m), ("loaded", l)):
                    if getattr(x, o.name) and getattr(x, other):
                        vs.append(C.viol("exclusive-both-on", {"type": tkey, "pair": sorted([o.name, other]),
                                                                "path": "assignment-after-foreign-record", "who": who},
                                         {"assigned": [target, bool(val)]}, case))
    return n, vs


def static_disjoint():
    vs = []
    n = 0
    for tkey in opt_types():
        t = spec.types()[tkey]
        cls = cls_of(tkey)
        for source, opts in (("yaml", [(o.name, o.byte, o.bit, o.size) for o in t.options]),
                             ("class", [(o.name, o.byte, o.bit, o.size) for o in cls.options.values()])):
            for (a, b) in itertools.combinations(opts, 2):
                n += 1
                ra = set(range(a[1] * 8 + a[2], a[1] * 8 + a[2] + a[3]))
                rb = set(range(b[1] * 8 + b[2], b[1] * 8 + b[2] + b[3]))
                if ra & rb:
                    vs.append(C.viol("overlap", {"type": tkey, "source": source, "pair": sorted([a[0], b[0]])},
                                     {"bits": sorted(ra & rb)}, {"static": True}))
            for o in opts:
                if o[2] + o[3] > 8:
                    vs.append(C.viol("crosses-byte", {"type": tkey, "source": source, "option": o[0]}, {}, {"static": True}))
    return n, vs


def ctor_exclusive(tkey):
    """Constructor keywords: whatever combination of two mutually exclusive options is requested, the module never
    ends up with both on — live and after save/load."""
    import rv.api as rv

    t = spec.types()[tkey]
    vs = []
    n = 0
    for o in t.options:
        for other in o.exclusive_of:
            for va in (False, True):
                for vb in (False, True):
                    for order in (0, 1):
                        n += 1
                        kw = {o.name: va, other: vb} if order == 0 else {other: vb, o.name: va}
                        case = {"type": tkey, "ctor_exclusive": [o.name, other]}
                        try:
                            m = cls_of(tkey)(**kw)
                        except Exception as e:
                            vs.append(C.viol("ctor-raises", {"type": tkey, "exc": type(e).__name__}, {"kw": kw}, case))
                            continue
                        l = C.load_bytes(C.save(rv.Synth(m))).module
                        for who, x in (("live", m), ("loaded", l)):
                            if getattr(x, o.name) and getattr(x, other):
                                vs.append(C.viol("exclusive-both-on", {"type": tkey, "pair": sorted([o.name, other]), "path": "constructor", "who": who},
                                                 {"kw": {k: bool(v) for k, v in kw.items()}}, case))
    return n, vs


def bounded_sweep(tkey):
    vs = []
    n = 0
    t = spec.types()[tkey]
    cls = cls_of(tkey)
    for o in t.options:
        if o.min is None or o.max is None:
            continue
        import rv.api as rv

        def by_attr(v):
            m = cls()
            setattr(m, o.name, v)
            return m

        def by_ctor(v):
            return cls(**{o.name: v})

        def by_new_module(v):
            return rv.Project().new_module(cls, **{o.name: v})

        def on_loaded(v):
            m = cls().clone()
            setattr(m, o.name, v)
            return m

        for path, make in (("attribute", by_attr), ("constructor", by_ctor), ("new_module", by_new_module), ("loaded", on_loaded)):
            for v in range(-2, 259):
                n += 1
                try:
                    m = make(v)
                except Exception as e:
                    vs.append(C.viol("bounded-option-rejected", {"type": tkey, "option": o.name, "path": path, "exc": type(e).__name__},
                                     {"assigned": v}, {"bounded": tkey}))
                    break
                got = getattr(m, o.name)
                want = max(o.min, min(o.max, v))
                stored = getattr(C.load_bytes(C.save(rv.Synth(m))).module, o.name) if v in (-2, -1, o.min, o.max, o.max + 1, 200, 255, 258) else want
                if got != want or stored != want:
                    vs.append(C.viol("not-clamped", {"type": tkey, "option": o.name, "path": path,
                                                     "side": "low" if v < o.min else "high" if v > o.max else "in"},
                                     {"assigned": v, "read": got, "after_save_load": stored, "expected": want}, {"bounded": tkey}))
                    break
    return n, vs


def bfs_exclusive(tkey, depth):
    """All assignment sequences up to `depth` over exclusive/inverted options (both values)."""
    t = spec.types()[tkey]
    focus = [o for o in t.options if o.exclusive_of or o.inverted]
    if not focus:
        return 0, 0, []
    alphabet = [(o.name, v) for o in focus for v in (0, 1)]
    vs = []
    n = 0
    states = set()
    for d in range(1, depth + 1):
        for seq in itertools.product(alphabet, repeat=d):
            n += 1
            v, _h = check_assignment(tkey, list(seq), contexts=("synth",) if d == depth else ())
            vs += v
            states.add(tuple(sorted(logical_expected(t, list(seq)).items())))
    return n, len(states), vs


def run_case(case):
    if case.get("static"):
        return static_disjoint()[1]
    if case.get("bounded"):
        return bounded_sweep(case["bounded"])[1]
    if case.get("ctor_exclusive"):
        return ctor_exclusive(case["type"])[1]
    if case.get("foreign_record"):
        return [v for v in foreign_records(case["type"])[1] if v["case"]["foreign_record"] == case["foreign_record"]]
    if case.get("second_generation"):
        return second_generation(case["type"], case["second_generation"][0])[1]
    return check_assignment(case["type"], [tuple(a) for a in case["assign"]])[0]


def _task(t):
    r = C.new_result()
    kind = t[0]
    if kind == "pairs":
        _k, tkey, oname = t
        ty = spec.types()[tkey]
        o = next(x for x in ty.options if x.name == oname)
        for v in values_of(o):
            vs, h = check_assignment(tkey, [(oname, v)])
            r["evals"] += 1
            r["digests"].add(h)
            r["violations"] += vs
            for p in ty.options:
                if p.name == oname:
                    continue
                for pv in partner_values(p):
                    for order in (0, 1):
                        seq = [(p.name, pv), (oname, v)] if order == 0 else [(oname, v), (p.name, pv)]
                        vs, h = check_assignment(tkey, seq, contexts=("synth",) if order else ("synth", "project"))
                        r["evals"] += 1
                        r["digests"].add(h)
                        if len(r["violations"]) < 30:
                            r["violations"] += vs
        r["sample"] = {"type": tkey, "assign": [[oname, values_of(o)[-1]]]}
    elif kind == "full":
        _k, tkey, lo = t
        ty = spec.types()[tkey]
        one = [o for o in ty.options if o.size == 1]
        win = one[lo:lo + 6]
        for bits in itertools.product((0, 1), repeat=len(win)):
            seq = [(o.name, b) for o, b in zip(win, bits)]
            vs, h = check_assignment(tkey, seq)
            r["evals"] += 1
            r["digests"].add(h)
            r["violations"] += vs
        r["sample"] = {"type": tkey, "assign": [[o.name, 1] for o in win]}
    elif kind == "patterns":
        _k, tkey = t
        ty = spec.types()[tkey]
        for pat in ("off", "on", "alt0", "alt1", "max"):
            seq = []
            for i, o in enumerate(ty.options):
                top = (o.max if o.max is not None else 2 ** o.size - 1)
                v = {"off": 0, "on": 1 if o.size == 1 else top, "alt0": i % 2, "alt1": (i + 1) % 2, "max": top}[pat]
                seq.append((o.name, v))
            vs, h = check_assignment(tkey, seq)
            r["evals"] += 1
            r["digests"].add(h)
            r["violations"] += vs
    elif kind == "bfs":
        _k, tkey, depth = t
        n, st, vs = bfs_exclusive(tkey, depth)
        r["evals"] += n
        C.count(r, "bfs_states", st)
        r["violations"] += vs[:20]
    elif kind == "secondgen":
        n, vs = second_generation(t[1], t[2])
        r["evals"] += n
        C.count(r, "second_generation", n)
        r["violations"] += vs[:10]
    elif kind == "bounded":
        n2, vs2 = ctor_exclusive(t[1])
        r["evals"] += n2
        r["violations"] += vs2
        n, vs = bounded_sweep(t[1])
        r["evals"] += n
        r["violations"] += vs
    elif kind == "foreign":
        n, vs = foreign_records(t[1])
        r["evals"] += n
        C.count(r, "foreign_records", n)
        r["violations"] += vs[:20]
    return r


def run(ctx):
    treeenv.setup()
    agg = C.Agg()
    n, vs = static_disjoint()
    ctx.add(vs)
    tasks = []
    nopt = 0
    for tkey in opt_types():
        ty = spec.types()[tkey]
        for o in ty.options:
            nopt += 1
            tasks.append(("pairs", tkey, o.name))
            tasks.append(("secondgen", tkey, o.name))
        one = [o for o in ty.options if o.size == 1]
        for lo in range(0, max(1, len(one) - 5)):
            tasks.append(("full", tkey, lo))
        tasks.append(("patterns", tkey))
        tasks.append(("bfs", tkey, 4 if ctx.thorough else 3))
        tasks.append(("bounded", tkey))
        tasks.append(("foreign", tkey))
    for r in ctx.pmap(_task, tasks):
        agg.merge(r)
    ctx.add(agg.violations)
    return {
        "evaluations": agg.evals + n,
        "distinct_nontrivial": max(0, len(agg.digests) - 1),
        "rule": "complete: every value of every option x every value of every other option (both orders), windows of "
                "2^6 joint assignments, all-on/off/alternating, all assignment sequences <= depth over exclusive/inverted "
                "options, every integer -2..258 on bounded options; distinct_nontrivial = distinct written files",
        "exhaustive": True,
        "option_types": len(opt_types()), "options": nopt, "static_pairs": n,
        "bfs_states": agg.counters.get("bfs_states", 0),
        "second_generation_edits": agg.counters.get("second_generation", 0),
        "edits_after_foreign_option_records": agg.counters.get("foreign_records", 0),
        "samples": agg.samples,
    }
