"""C07 — connecting and disconnecting keep the link tables mutually consistent.

E-BFS over the real `Project.connect` (+ operator sugar) on one project with modules
{Output, A, B, C} and one foreign module F owned by another project; reference model
`rvref.model.LinkModel` stepped in lock-step on every transition; invariants I1-I4 in every
reached state.  See DESIGN.md §5 C07.
"""
from rvmc import explorer, treeenv
from rvref.model import LinkModel

PROPERTY = "C07"
LEVEL = "model_checking"
ASSUMPTIONS = [
    "bounded: 4 local modules + 1 foreign module, histories up to the reported depth",
    "`~x >> y` (disconnecting wrapper as LEFT operand of an operator) raises TypeError before any "
    "state change and is outside the alphabet (DESIGN §4)",
    "state digests are 96-bit blake2b of the exact link tables; a collision could merge two states",
]

LOCAL = [0, 1, 2, 3]
FOREIGN = 9        # module of another project whose index (1) also exists in the local project
FOREIGN_FAR = 8    # module of another project whose index (6) is beyond the local project's module list
FOREIGN_CLAIMED = 7  # module CONSTRUCTED with parent=<local project>, index=1 but never attached: not one of its modules


# ------------------------------------------------------------------ alphabet
def _neg(i):
    return ["~", i]


def alphabet_A1(mods=LOCAL):
    ops = [{"op": "save"}]
    for x in mods:
        for y in mods:
            ops.append({"op": "connect", "f": x, "t": y})
    for x in mods:
        for y in mods:
            ops.append({"op": "connect", "f": _neg(x), "t": y})
            ops.append({"op": "connect", "f": x, "t": _neg(y)})
    return ops


def alphabet_A2():
    ops = []
    for side in ("f", "t"):
        for i in LOCAL:
            for j in LOCAL:
                for ni in (0, 1):
                    for nj in (0, 1):
                        lst = [_neg(i) if ni else i, _neg(j) if nj else j]
                        for k in LOCAL:
                            for nk in (0, 1):
                                single = _neg(k) if nk else k
                                if side == "f":
                                    ops.append({"op": "connect", "f": lst, "t": single})
                                else:
                                    ops.append({"op": "connect", "f": single, "t": lst})
    return ops


def alphabet_A4():
    ops = []
    pairs = [[i, j] for i in LOCAL for j in LOCAL]
    for a in pairs:
        for b in pairs:
            ops.append({"op": "connect", "f": a, "t": b})
    return ops


def alphabet_A6():
    """Requests that involve the foreign module F (must be refused)."""
    ops = []
    for x in LOCAL:
        ops.append({"op": "connect", "f": x, "t": FOREIGN})
        ops.append({"op": "connect", "f": FOREIGN, "t": x})
        ops.append({"op": "connect", "f": _neg(x), "t": FOREIGN})
        ops.append({"op": "connect", "f": FOREIGN, "t": _neg(x)})
        for y in LOCAL:
            ops.append({"op": "connect", "f": x, "t": [y, FOREIGN]})
            ops.append({"op": "connect", "f": [y, FOREIGN], "t": x})
            ops.append({"op": "connect", "f": x, "t": [FOREIGN, y]})
    ops.append({"op": "connect", "f": FOREIGN, "t": FOREIGN})
    for x in LOCAL:
        ops.append({"op": "rshift", "l": x, "r": FOREIGN})
        ops.append({"op": "lshift", "l": x, "r": FOREIGN})
        for far in (FOREIGN_FAR, FOREIGN_CLAIMED):
            ops.append({"op": "connect", "f": x, "t": far})
            ops.append({"op": "connect", "f": far, "t": x})
            ops.append({"op": "connect", "f": x, "t": _neg(far)})
            ops.append({"op": "connect", "f": [x, far], "t": x})
            ops.append({"op": "rshift", "l": x, "r": far})
    return ops


def alphabet_A5():
    """Operator sugar, each with the method form it must be equivalent to."""
    ops = []
    for x in LOCAL:
        for y in LOCAL:
            ops.append({"op": "rshift", "l": x, "r": y, "equiv": [{"op": "connect", "f": x, "t": y}]})
            ops.append({"op": "lshift", "l": x, "r": y, "equiv": [{"op": "connect", "f": y, "t": x}]})
            ops.append({"op": "rshift", "l": x, "r": _neg(y), "equiv": [{"op": "connect", "f": x, "t": _neg(y)}]})
            ops.append({"op": "lshift", "l": x, "r": _neg(y), "equiv": [{"op": "connect", "f": _neg(y), "t": x}]})
            for z in LOCAL:
                ops.append({"op": "rshift", "l": x, "r": [y, z],
                            "equiv": [{"op": "connect", "f": x, "t": [y, z]}]})
                ops.append({"op": "lshift", "l": x, "r": [y, z],
                            "equiv": [{"op": "connect", "f": [y, z], "t": x}]})
                ops.append({"op": "rshift", "l": [x, y], "r": z,
                            "equiv": [{"op": "connect", "f": [x, y], "t": z}]})
                ops.append({"op": "lshift", "l": [x, y], "r": z,
                            "equiv": [{"op": "connect", "f": z, "t": [x, y]}]})
                ops.append({"op": "rshift", "l": [x, _neg(y)], "r": z,
                            "equiv": [{"op": "connect", "f": [x, _neg(y)], "t": z}]})
                # a LIST on both sides of the operator (the left one is a ModuleList), also as second hop of a chain
                for w in LOCAL:
                    if (x + y + z + w) % 2:      # half of the 256 combinations per form (the other half mirrors them)
                        continue
                    ops.append({"op": "rshift", "l": [x, y], "r": [z, w],
                                "equiv": [{"op": "connect", "f": [x, y], "t": [z, w]}]})
                    ops.append({"op": "lshift", "l": [x, y], "r": [z, w],
                                "equiv": [{"op": "connect", "f": [z, w], "t": [x, y]}]})
                    ops.append({"op": "lshift", "l": [x, y], "r": [_neg(z), w],
                                "equiv": [{"op": "connect", "f": [_neg(z), w], "t": [x, y]}]})
                    ops.append({"op": "chain", "dir": "<<", "seq": [x, [y, z], [w, x]],
                                "equiv": [{"op": "connect", "f": [y, z], "t": x},
                                          {"op": "connect", "f": [w, x], "t": [y, z]}]})
                    # ... and a chain that CONTINUES after two adjacent lists (the value each step hands on matters)
                    ops.append({"op": "chain", "dir": "<<", "seq": [x, [y, z], [w, x], y],
                                "equiv": [{"op": "connect", "f": [y, z], "t": x},
                                          {"op": "connect", "f": [w, x], "t": [y, z]},
                                          {"op": "connect", "f": y, "t": [w, x]}]})
                    ops.append({"op": "chain", "dir": ">>", "seq": [x, [y, z], [w, x], y],
                                "equiv": [{"op": "connect", "f": x, "t": [y, z]},
                                          {"op": "connect", "f": [y, z], "t": [w, x]},
                                          {"op": "connect", "f": [w, x], "t": y}]})
                    ops.append({"op": "chain", "dir": ">>", "seq": [x, [_neg(y), z], [w, x], z],
                                "equiv": [{"op": "connect", "f": x, "t": [_neg(y), z]},
                                          {"op": "connect", "f": [_neg(y), z], "t": [w, x]},
                                          {"op": "connect", "f": [w, x], "t": z}]})
                # chains: x >> [y, z] >> x   and   x >> y >> z   and  x << y << z
                ops.append({"op": "chain", "dir": ">>", "seq": [x, [y, z], x],
                            "equiv": [{"op": "connect", "f": x, "t": [y, z]},
                                      {"op": "connect", "f": [y, z], "t": x}]})
                ops.append({"op": "chain", "dir": ">>", "seq": [x, y, z],
                            "equiv": [{"op": "connect", "f": x, "t": y},
                                      {"op": "connect", "f": y, "t": z}]})
                ops.append({"op": "chain", "dir": "<<", "seq": [x, y, z],
                            "equiv": [{"op": "connect", "f": y, "t": x},
                                      {"op": "connect", "f": z, "t": y}]})
    return ops


# ------------------------------------------------------------------ the system
HOLE_LAYOUTS = ((2, 1, 0), (0, 0, 3), (0, 1, 0, 2))     # empty positions before local module 1, 2, 3 [, at the end]


class Live:
    __slots__ = ("p", "mods", "p2", "f", "saved", "local_of")


def requested_pairs(op):
    """All (from, to) pairs an op mentions (used for 'no other pair changes')."""
    out = set()
    for sub in op.get("equiv") or [op]:
        if sub["op"] == "save":
            continue
        if sub["op"] == "connect":
            F, T = sub["f"], sub["t"]
        elif sub["op"] == "rshift":
            F, T = sub["l"], sub["r"]
        elif sub["op"] == "lshift":
            F, T = sub["r"], sub["l"]
        else:
            continue
        for f, _ in LinkModel._items(F):
            for t, _ in LinkModel._items(T):
                out.add((f, t))
    return out


class LinkSystem:
    def __init__(self, ops, holes=(0, 0, 0)):
        self.ops = ops
        self.holes = tuple(holes)
        self.case_extra = {"holes": list(self.holes)} if any(self.holes) else {}      # empty module slots in front of local module 1, 2, 3 (module numbers then differ from local ids)

    # --- implementation side
    def fresh(self):
        import rv.api as rv

        L = Live()
        L.p = rv.Project()
        made = []
        for h in self.holes[:3]:
            for _ in range(h):
                L.p.attach_module(None)
            # new_module would fill the first empty slot; `loading=True` appends (how a file with empty slots is rebuilt)
            made.append(L.p.attach_module(rv.m.Amplifier(), loading=True) if any(self.holes)
                        else L.p.new_module(rv.m.Amplifier))
        a, b, c = made
        for _ in range(self.holes[3] if len(self.holes) > 3 else 0):
            L.p.attach_module(None)            # the module table ENDS with empty positions
        L.mods = {0: L.p.output, 1: a, 2: b, 3: c}
        L.local_of = {L.mods[i].index: i for i in LOCAL}
        L.p2 = rv.Project()
        L.f = L.p2.new_module(rv.m.Amplifier)
        L.mods[FOREIGN] = L.f
        for _ in range(4):
            L.p2.new_module(rv.m.Amplifier)
        L.mods[FOREIGN_FAR] = L.p2.new_module(rv.m.Amplifier)      # index 6 >= len(local modules) == 4
        L.mods[FOREIGN_CLAIMED] = rv.m.Amplifier(parent=L.p, index=1)
        L.saved = 0
        return L

    def _operand(self, L, o, wrap_list=False):
        from rv.modules.module import ModuleList

        if isinstance(o, list) and len(o) == 2 and o[0] == "~":
            return ~L.mods[o[1]]
        if isinstance(o, list):
            items = [self._operand(L, x) for x in o]
            return ModuleList(L.p, items) if wrap_list else items
        return L.mods[o]

    def apply(self, L, op):
        from rv.errors import ModuleOwnershipError

        try:
            kind = op["op"]
            L.saved = 1 if kind == "save" else 0
            if kind == "connect":
                L.p.connect(self._operand(L, op["f"]), self._operand(L, op["t"]))
            elif kind == "rshift":
                self._operand(L, op["l"], True) >> self._operand(L, op["r"])
            elif kind == "lshift":
                self._operand(L, op["l"], True) << self._operand(L, op["r"])
            elif kind == "save":
                L.p.read()          # serialising the project between link operations must not disturb the tables
            elif kind == "chain":
                seq = op["seq"]
                cur = self._operand(L, seq[0], True)
                for nxt in seq[1:]:
                    cur = (cur >> self._operand(L, nxt)) if op["dir"] == ">>" else (cur << self._operand(L, nxt))
            else:
                raise ValueError(kind)
        except ModuleOwnershipError:
            return "raise:ModuleOwnershipError"
        except (IndexError, KeyError, AttributeError, TypeError, ValueError) as e:
            # the refusal has a defined error type; anything else is an observable outcome, not a harness failure
            return "raise:" + type(e).__name__
        return "ok"

    def tables(self, L):
        return tuple(
            (tuple(m.in_links), tuple(m.in_link_slots), tuple(m.out_links), tuple(m.out_link_slots))
            for m in (L.mods[0], L.mods[1], L.mods[2], L.mods[3], L.f)
        )

    def canon(self, L):
        # the tables PLUS whether the last operation was a save (a save may leave hidden state behind, e.g. a
        # cache or an in-place clean-up; merging "saved" and "not saved" states would hide what follows it)
        return self.tables(L) + (L.saved,)

    def save(self, L):
        self._saved_flag = L.saved
        return [
            (list(m.in_links), list(m.in_link_slots), list(m.out_links), list(m.out_link_slots))
            for m in (L.mods[0], L.mods[1], L.mods[2], L.mods[3], L.f, L.mods[FOREIGN_FAR], L.mods[FOREIGN_CLAIMED])
        ]

    def restore(self, L, saved):
        L.saved = self._saved_flag
        for m, s in zip((L.mods[0], L.mods[1], L.mods[2], L.mods[3], L.f, L.mods[FOREIGN_FAR], L.mods[FOREIGN_CLAIMED]), saved):
            m.in_links[:] = s[0]
            m.in_link_slots[:] = s[1]
            m.out_links[:] = s[2]
            m.out_link_slots[:] = s[3]

    # --- model side
    def model_fresh(self):
        return LinkModel(LOCAL)

    def model_save(self, m):
        return m.copy()

    def model_restore(self, saved):
        return saved.copy()

    def model_apply(self, m, op):
        m._before = set(m.edges)
        kind = op["op"]
        if kind == "save":
            return "ok"
        if kind == "connect":
            return m.connect(op["f"], op["t"])
        if kind == "rshift":
            return m.connect(op["l"], op["r"])
        if kind == "lshift":
            return m.connect(op["r"], op["l"])
        if kind == "chain":
            seq = op["seq"]
            for a, b in zip(seq, seq[1:]):
                r = m.connect(a, b) if op["dir"] == ">>" else m.connect(b, a)
                if r != "ok":
                    return r
            return "ok"
        raise ValueError(kind)

    # --- oracles
    def invariant(self, L):
        return link_invariants(L.p, extra=[L.f])

    def compare(self, L, m, op, outcome, expected):
        vs = []
        opk = op_pattern(op)
        if outcome != expected:
            vs.append({"subcheck": "outcome", "key": {"op": opk},
                       "detail": {"expected": expected, "observed": outcome}})
            return vs
        e_in, e_out = edge_sets(L.p)
        e_in = {(L.local_of.get(a, ("?", a)), L.local_of.get(b, ("?", b))) for a, b in e_in}
        if outcome == "ok":
            if e_in != m.edges:
                vs.append({"subcheck": "edge-set", "key": {"op": opk},
                           "detail": {"expected": sorted(m.edges), "observed": sorted(e_in)}})
        else:
            # refused request: pairs the request does not mention must be untouched, the
            # foreign module must stay unlinked, nothing may name it.
            req = requested_pairs(op)
            before = getattr(m, "_before", set())
            changed = {p for p in (e_in ^ before) if p not in req}
            if changed:
                vs.append({"subcheck": "refused-changes-other-pair", "key": {"op": opk},
                           "detail": {"changed": sorted(changed)}})
            for f in (L.f, L.mods[FOREIGN_FAR], L.mods[FOREIGN_CLAIMED]):
                if f.in_links or f.out_links or f.in_link_slots or f.out_link_slots:
                    vs.append({"subcheck": "foreign-linked", "key": {"op": opk}, "detail": {}})
                    break
        return vs


def op_pattern(op):
    """Stable description of an op's *shape* (operand kinds), not its module numbers."""
    def shape(o):
        if isinstance(o, list) and len(o) == 2 and o[0] == "~":
            return "~m"
        if isinstance(o, list):
            return "[" + ",".join(shape(x) for x in o) + "]"
        return "F" if o == FOREIGN else "Ffar" if o == FOREIGN_FAR else "Fclaimed" if o == FOREIGN_CLAIMED else "m"
    k = op["op"]
    if k == "save":
        return "save"
    if k == "connect":
        return f"connect({shape(op['f'])},{shape(op['t'])})"
    if k in ("rshift", "lshift"):
        return f"{shape(op['l'])}{'>>' if k == 'rshift' else '<<'}{shape(op['r'])}"
    return op["dir"].join(shape(x) for x in op["seq"])


def edge_sets(p):
    e_in, e_out = set(), set()
    for m in p.modules:
        if m is None:
            continue
        for s in m.in_links:
            if s >= 0:
                e_in.add((s, m.index))
        for t in m.out_links:
            if t >= 0:
                e_out.add((m.index, t))
    return e_in, e_out


def link_invariants(p, extra=()):
    """I1-I4 of DESIGN §5 C07 on a project's link tables."""
    vs = []

    def bad(name, detail):
        vs.append({"subcheck": "invariant-" + name, "key": {"inv": name}, "detail": detail})

    mods = p.modules
    for m in list(mods) + list(extra):
        if m is None:
            continue
        il, ils, ol, ols = m.in_links, m.in_link_slots, m.out_links, m.out_link_slots
        if len(il) != len(ils) or len(ol) != len(ols):
            bad("I1-parallel-length", {"module": m.index, "lens": [len(il), len(ils), len(ol), len(ols)]})
            continue
        if m in extra:
            continue
        for i, s in enumerate(il):
            slot = ils[i]
            if (s == -1) != (slot == -1):
                bad("I3-minus-one", {"module": m.index, "side": "in", "i": i, "link": s, "slot": slot})
                continue
            if s < 0:
                continue
            if s >= len(mods) or mods[s] is None:
                bad("I2-dangling", {"module": m.index, "side": "in", "i": i, "link": s})
                continue
            src = mods[s]
            if not (0 <= slot < len(src.out_links)) or src.out_links[slot] != m.index or \
                    slot >= len(src.out_link_slots) or src.out_link_slots[slot] != i:
                bad("I2-mutual", {"module": m.index, "side": "in", "i": i, "link": s, "slot": slot,
                                  "src_out_links": list(src.out_links),
                                  "src_out_link_slots": list(src.out_link_slots)})
        for i, t in enumerate(ol):
            slot = ols[i]
            if (t == -1) != (slot == -1):
                bad("I3-minus-one", {"module": m.index, "side": "out", "i": i, "link": t, "slot": slot})
                continue
            if t < 0:
                continue
            if t >= len(mods) or mods[t] is None:
                bad("I2-dangling", {"module": m.index, "side": "out", "i": i, "link": t})
                continue
            dst = mods[t]
            if not (0 <= slot < len(dst.in_links)) or dst.in_links[slot] != m.index or \
                    slot >= len(dst.in_link_slots) or dst.in_link_slots[slot] != i:
                bad("I2-mutual", {"module": m.index, "side": "out", "i": i, "link": t, "slot": slot,
                                  "dst_in_links": list(dst.in_links),
                                  "dst_in_link_slots": list(dst.in_link_slots)})
        pos_in = [s for s in il if s >= 0]
        pos_out = [t for t in ol if t >= 0]
        if len(pos_in) != len(set(pos_in)) or len(pos_out) != len(set(pos_out)):
            bad("I4-duplicate", {"module": m.index, "in": list(il), "out": list(ol)})
    return vs


# ------------------------------------------------------------------ sugar differential
_SUGAR = None


def _sugar_chunk(args):
    base_ops, histories, sugar = args
    sysm = LinkSystem(base_ops)
    out = []
    n = 0
    for hist in histories:
        for sop in sugar:
            n += 1
            L1 = sysm.fresh()
            m = sysm.model_fresh()
            for oi in hist:
                sysm.apply(L1, base_ops[oi])
                sysm.model_apply(m, base_ops[oi])
            L2 = sysm.fresh()
            for oi in hist:
                sysm.apply(L2, base_ops[oi])
            try:
                o1 = sysm.apply(L1, sop)
            except Exception as e:
                o1 = "crash:" + type(e).__name__
            o2 = "ok"
            for eq in sop["equiv"]:
                o2 = sysm.apply(L2, eq)
            exp = sysm.model_apply(m, sop)
            vs = sysm.compare(L1, m, sop, o1, exp) + sysm.invariant(L1)
            if o1 == o2 and sysm.tables(L1) != sysm.tables(L2):
                vs.append({"subcheck": "sugar-differs-from-method", "key": {"op": op_pattern(sop)},
                           "detail": {"sugar": sysm.tables(L1), "method": sysm.tables(L2)}})
            for v in vs:
                v["case"] = {"history": [base_ops[i] for i in hist] + [{k: w for k, w in sop.items() if k != "equiv"}]}
            out.append(vs)
    return n, [v for vs in out for v in vs]


# ------------------------------------------------------------------ many links from one source
def many_links():
    """One source linked to MORE than 16 targets one by one (a MultiCtl, which has 16 mapping slots, and a plain module),
    with links freed in between: whatever a request's outcome -- accepted or refused with any error -- the tables of both
    ends agree afterwards (I1-I4), and an accepted request is recorded on both ends."""
    import rv.api as rv

    vs, n = [], 0
    for src_type in ("MultiCtl", "Amplifier"):
        for free_first in (False, True):
            p = rv.Project()
            src = p.new_module(getattr(rv.m, src_type))
            amps = [p.new_module(rv.m.Amplifier) for _ in range(20)]
            case = {"many_links": [src_type, free_first]}
            for k, a in enumerate(amps):
                n += 1
                if free_first and k == 5:
                    for b in amps[:3]:
                        try:
                            src >> ~b
                        except Exception:
                            pass
                try:
                    src >> a
                    outcome = "ok"
                except Exception as e:
                    outcome = "raise:" + type(e).__name__
                inv = link_invariants(p)
                if inv:
                    v = inv[0]
                    v["key"] = dict(v["key"], source=src_type, step=k + 1, outcome=outcome.split(":")[0])
                    v["case"] = case
                    vs.append(v)
                    break
                linked = a.index in [t for t in src.out_links if t >= 0] and src.index in [s_ for s_ in a.in_links if s_ >= 0]
                if outcome == "ok" and not linked:
                    vs.append({"subcheck": "accepted-link-not-recorded", "key": {"source": src_type, "step": k + 1}, "detail": {}, "case": case})
                    break
    return n, vs


# ------------------------------------------------------------------ run / replay
def run_case(case):
    """Replay one history on fresh objects; oracles evaluated after every step."""
    if "many_links" in case:
        return [v for v in many_links()[1] if v["case"] == case]
    hist = case["history"]
    sysm = LinkSystem(hist, case.get("holes", (0, 0, 0)))
    L = sysm.fresh()
    m = sysm.model_fresh()
    vs = sysm.invariant(L)
    for i, op in enumerate(hist):
        try:
            outcome = sysm.apply(L, op)
        except Exception as e:
            outcome = "crash:" + type(e).__name__
        exp = sysm.model_apply(m, op)
        step = sysm.compare(L, m, op, outcome, exp) + sysm.invariant(L)
        for v in step:
            v["case"] = dict(sysm.case_extra, history=hist[: i + 1])
        vs += step
        if step:
            break
    return vs


def run(ctx):
    treeenv.setup()
    A1 = alphabet_A1()
    full = A1 + alphabet_A2() + alphabet_A4() + alphabet_A6()
    d1 = 6 if ctx.thorough else 5
    d2 = 3 if ctx.thorough else 2
    from rvmc.runner import rotate

    # seed only permutes expansion order
    sys1 = LinkSystem(A1)
    r1 = explorer.bfs(ctx, sys1, d1, op_indices=rotate(range(len(A1)), ctx.seed),
                      keep_frontiers=True, chunk=128)
    ctx.add(r1.violations)
    sys2 = LinkSystem(full)
    r2 = explorer.bfs(ctx, sys2, d2, op_indices=rotate(range(len(full)), ctx.seed),
                      chunk=8 if d2 >= 3 else 4)
    ctx.add(r2.violations)
    # module numbers that differ from creation order: empty slots in front of the local modules
    r3s = []
    for holes in HOLE_LAYOUTS:
        r3 = explorer.bfs(ctx, LinkSystem(A1, holes), 4 if ctx.thorough else 3,
                          op_indices=rotate(range(len(A1)), ctx.seed), chunk=128)
        ctx.add(r3.violations)
        r3s.append(r3)
        # ... and the FULL alphabet (list operands, disconnect wrappers, sugar, foreign operands) on the same layouts
        r4 = explorer.bfs(ctx, LinkSystem(full, holes), 2 if (holes == HOLE_LAYOUTS[0] or ctx.thorough) else 1,
                          op_indices=rotate(range(len(full)), ctx.seed), chunk=4)
        ctx.add(r4.violations)
        r3s.append(r4)
    # sugar differential from every A1 state of depth <= 2
    sugar = alphabet_A5()
    base = [h for fr in r1.frontiers[:3] for h in fr]
    ctx.close()
    chunks = [base[i:i + 8] for i in range(0, len(base), 8)]
    sres = ctx.pmap(_sugar_chunk, [(A1, c, sugar) for c in chunks])
    n_sugar = sum(n for n, _ in sres)
    for _n, vs in sres:
        ctx.add(vs)
    n_many, v_many = many_links()
    ctx.add(v_many)
    distinct_outcomes = dict(r2.outcomes)
    for k, v in r1.outcomes.items():
        distinct_outcomes[k] = distinct_outcomes.get(k, 0) + v
    dead_ops = [op_pattern(full[i]) for i in range(len(full)) if i not in r2.op_changed and i < len(A1)]
    return {
        "states": r1.states + r2.states + sum(r.states for r in r3s),
        "transitions": r1.transitions + r2.transitions + n_sugar + sum(r.transitions for r in r3s),
        "traces_validated_against_impl": r1.transitions + r2.transitions + n_sugar + sum(r.transitions for r in r3s),
        "exhaustive": not (r1.capped or r2.capped or any(r.capped for r in r3s)),
        "layouts_with_empty_slots": [{"holes": list(HOLE_LAYOUTS[i // 2]), "alphabet": "A1" if i % 2 == 0 else "full",
                                      "depth_completed": r.depth_completed, "states": r.states, "transitions": r.transitions}
                                     for i, r in enumerate(r3s)],
        "A1": {"ops": len(A1), "depth_completed": r1.depth_completed, "states": r1.states,
               "transitions": r1.transitions, "states_per_level": r1.levels,
               "new_states_replay_verified": r1.replay_verified},
        "full_alphabet": {"ops": len(full), "depth_completed": r2.depth_completed, "states": r2.states,
                          "transitions": r2.transitions, "states_per_level": r2.levels,
                          "new_states_replay_verified": r2.replay_verified},
        "sugar_differential": {"ops": len(sugar), "from_states": len(base), "executions": n_sugar},
        "requests_with_more_than_16_targets_of_one_source": n_many,
        "outcomes": distinct_outcomes,
        "capped": r1.capped or r2.capped,
        "samples": [
            {"history": [A1[i] for i in (r1.frontiers[min(3, len(r1.frontiers) - 1)] or [()])[0]]},
            {"history": [full[len(A1) + 5], full[len(A1) + 700]]},
            {"sugar": {k: v for k, v in sugar[7].items()}},
        ],
        "rule": "explicit-state BFS over the real Project.connect; model = edge set stepped on every transition; "
                "invariants I1-I4 in every state",
    }
