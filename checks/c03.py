"""C03 — written files conform to the documented SunVox chunk format.

Every object of the C01/C02 enumerations (project fields, names, pattern lists, note cells,
every module type x every single deviation in BOTH writers, linked type pairs; thorough: pairs
of deviations) plus the MetaModule / Sampler objects of C15/C16 is written by rv and decoded by
`rvref.codec` — a strict, grammar-driven decoder written only from the format documentation
and the YAML (it shares no code with rv).  The decoder must consume the whole stream, report
no structural problem, and decode to exactly snapshot(object).  A symmetric writer+reader
error in rv is invisible to a round trip but is a disagreement here.
"""
from checks import c01, common as C
from rvmc import deviate, snapshot as S, spec, treeenv
from rvref import codec

PROPERTY = "C03"
LEVEL = "exploration"
ASSUMPTIONS = [
    "rvref.codec is the trusted base: written from docs/sunvox-file-format.rst + specs/fileformat.yaml + the ground-truth "
    "table in rvref/SHAPE.md by a separate author who did not read rv; 52/52 fixtures decode completely with it",
    "items the documentation does not define (bit positions inside SFGS, placement of SLnK, elision of default arrays) are "
    "known only from fixtures/CHANGELOG; a symmetric rv error in those is outside this check's reach",
    "reserved / legacy regions of the sampler record are opaque (N11)",
]

_ATTR = None


def attr_names():
    global _ATTR
    if _ATTR is None:
        _ATTR = {t.type: {c.name: c.attr for c in t.controllers} for t in spec.types().values()}
    return _ATTR


def norm_decoded_module(m):
    if m is None:
        return None
    m = dict(m)
    amap = attr_names().get(m["type"], {})
    m["controllers"] = [[amap.get(n, n), v] for n, v in m["controllers"]]
    if m.get("cmid") is None:
        m["cmid"] = []
    from rvref import absdev

    w = m.get("visualization")
    m["vis_fields"] = None if w is None else {k: (w >> sh) & ((1 << width) - 1) for k, (sh, width) in absdev.VIS.items()}
    pl = dict(m.get("payload") or {})
    if "project" in pl:
        pl["project"] = norm_decoded(pl["project"])
    if pl.get("effect"):
        e = dict(pl["effect"])
        e["module"] = norm_decoded_module(e["module"])
        pl["effect"] = e
    if "note_samples" in pl:
        pl["note_samples"] = list(pl["note_samples"])[:119]
    m["payload"] = pl
    return m


def norm_decoded(v):
    v = dict(v)
    if v.get("kind") == "synth":
        v["module"] = norm_decoded_module(v["module"])
    else:
        v["modules"] = [norm_decoded_module(m) for m in v["modules"]]
    return v


def norm_snapshot_module(m, dec):
    """rv-side normalisation: keys the file cannot carry are dropped; names up to 32 bytes."""
    if m is None:
        return None
    m = C.norm_module_for_compare(m)
    m.pop("out_links", None)
    m.pop("out_link_slots", None)
    if dec is not None and dec.get("in_link_slots") is None and m.get("in_link_slots") is not None:
        # slot chunk absent: documented as "all slots zero" -> must indeed be all 0 / -1
        if all(s in (0, -1) for s in m["in_link_slots"]):
            m["in_link_slots"] = None
    pl = m.get("payload") or {}
    if "slot_count" in pl:
        pl = dict(pl)
        pl.pop("slot_count")
        # the sample name field is 22 bytes, NUL padded
        pl["samples"] = {i: dict(sm, name=sm["name"][:22].rstrip(b"\0")) for i, sm in pl["samples"].items()}
        m["payload"] = pl
    dpl = (dec or {}).get("payload") or {}
    if "project" in pl and "project" in dpl:
        pl = dict(pl)
        pl["project"] = norm_snapshot(pl["project"], dpl["project"])
        m["payload"] = pl
    if pl.get("effect") and dpl.get("effect"):
        pl = dict(pl)
        e = dict(pl["effect"])
        e["module"] = norm_snapshot_module(e["module"], dpl["effect"]["module"])
        pl["effect"] = e
        m["payload"] = pl
    return m


def norm_snapshot(s, dec):
    s = dict(s)
    if s.get("kind") == "synth":
        s["module"] = norm_snapshot_module(s["module"], dec.get("module"))
    else:
        dm = dec.get("modules", [])
        s["modules"] = [norm_snapshot_module(m, dm[i] if i < len(dm) else None) for i, m in enumerate(s["modules"])]
    return s


def conformance(obj, case, key):
    """Write obj with rv, decode with rvref; returns (violations, written bytes)."""
    snap = S.snapshot(obj)
    try:
        b = C.save(obj)
    except Exception:
        return [], b""          # not saveable: C01/C02 territory
    try:
        dec = codec.decode(b)
    except codec.DecodeError as e:
        return [C.viol("not-well-formed", dict(key, what=str(e)[:60]), {"error": str(e)[:300]}, case)], b
    vs = []
    for pr in dec.problems:
        import re

        vs.append(C.viol("structural-rule", dict(key, rule=re.sub(r"\d+", "#", pr)[:90]), {"problem": pr}, case))
    dv = norm_decoded(dec.value)
    d = S.diff(norm_snapshot(snap, dv), dv)
    if d:
        vs.append(C.viol("decoded-content-differs", dict(key, path=C.first_diff_key(d)), {"diff": S.diff_text(d)}, case))
    return vs[:4], b


def tweak_in_place(obj):
    """Small IN-PLACE edits of whatever the container holds (note cells, array elements, option, binding, label).
    Returns True if something was edited."""
    from rv.pattern import Pattern
    from rv.project import Project

    done = False
    mods = [m for m in obj.modules if m is not None] if isinstance(obj, Project) else [obj.module]
    if isinstance(obj, Project):
        for pat in obj.patterns:
            if isinstance(pat, Pattern):
                n = pat.data[pat.lines - 1][pat.tracks - 1]
                n.vel = (n.vel + 1) % 130
                n.module = (n.module + 0x101) & 0xFFFF
                done = True
                break
    for m in mods:
        for path, (lo, hi, length, kind) in deviate.ARRAYS.get(m.mtype, {}).items():
            arr = getattr(getattr(m, path), kind)
            if lo is None:
                arr[1] = 0.75
            elif path == "harmonic_types":
                arr[1] = type(m).HarmonicType(3)
            else:
                arr[1] = lo if arr[1] != lo else hi
            done = True
        if m.mtype == "MultiCtl":
            m.mappings.values[2].max = 12345
            done = True
        if m.mtype == "MetaModule" and m.user_defined_controllers:
            m.user_defined[0].label = "relabelled"
            done = True
        names = list(m.controllers)
        if names and not names[0].startswith("user_defined"):
            m.controller_midi_maps[names[0]].message_parameter = 0x0102
            done = True
        # options: multi-bit ones to a value that does NOT cover the bits of the old one, one-bit ones toggled
        for oname, o in list(getattr(m, "options", {}).items())[:12]:
            try:
                cur = int(getattr(m, oname))
                if o.size > 1:
                    new = 1 if cur != 1 else 2
                    if oname == "user_defined_controllers":
                        new = 2 if cur != 2 else 1
                    setattr(m, oname, new)
                elif not getattr(o, "exclusive_of", None):
                    setattr(m, oname, not cur)
                done = True
            except Exception:
                pass
    return done


def build(case):
    import rv.api as rv

    if case.get("kind") == "synth":
        mod = deviate.build(case["type"], case["devs"])
        if case.get("attached"):
            # "build it in a project, export it as an instrument": the module has a parent while the Synth is written
            rv.Project().attach_module(mod)
        if case.get("attached") == "effect":
            smp = rv.m.Sampler()
            smp.effect = rv.Synth(mod)
            return rv.Synth(smp)
        return rv.Synth(mod)
    if case.get("kind") == "extra":
        from checks import c15, c16

        return (c15 if case["from"] == "c15" else c16).build_object(case["case"])
    return c01.build_case(case)


def case_key(case):
    if case.get("kind") == "synth":
        return {"ctx": "synth" + ("-of-project-module" if case.get("attached") else ""), "type": case["type"]}
    if case.get("kind") == "extra":
        return {"ctx": case["from"]}
    return dict(c01.case_key(case), ctx="project", part=case["kind"])


def run_case(case):
    second = case.get("second_save")
    third = case.get("loaded_then_edited")
    case = {k: v for k, v in case.items() if k not in ("second_save", "loaded_then_edited")}
    obj = build(case)
    vs, b0 = conformance(obj, case, case_key(case))
    if third:
        o3 = C.load_bytes(b0)
        tweak_in_place(o3)
        return conformance(o3, dict(case, loaded_then_edited=True), dict(case_key(case), loaded_then_edited=True))[0]
    if second and tweak_in_place(obj):
        return conformance(obj, dict(case, second_save=True), dict(case_key(case), second_save=True))[0]
    return vs


def _task(t):
    r = C.new_result()
    kind = t[0]
    if kind == "cases":
        cases = t[1]
    elif kind == "moddevs":
        _k, tkey, seed, lo, hi, k2 = t
        devs = deviate.module_devs(tkey, seed, spikes="all" if not k2 else "few", opt8="all" if not k2 else "few")
        if k2 == "reduced":
            combos = [list(p) for p in list(deviate.pairs(deviate.reduced_devs(tkey, seed)))[lo:hi]]
        elif k2:
            combos = [list(p) for p in list(deviate.pairs(devs, common_pairs=(tkey == 'Amplifier')))[lo:hi]]
        else:
            combos = ([[]] + [[d] for d in devs])[lo:hi]
        cases = []
        for c in combos:
            if k2 != "reduced":
                cases.append({"kind": "module", "mods": [[tkey, c]]})
            cases.append({"kind": "synth", "type": tkey, "devs": c})
            if not k2 and (not c or c[0]["k"] in ("ctl", "attr", "vis", "flag")):
                cases.append({"kind": "synth", "type": tkey, "devs": c, "attached": True})
            if not k2 and not c:
                cases.append({"kind": "synth", "type": tkey, "devs": c, "attached": "effect"})
    for case in cases:
        try:
            obj = build(case)
        except Exception as e:
            # every case is an in-domain object (none is rejected on the unchanged tree): report, do not skip
            C.count(r, "rejected")
            if len(r["violations"]) < 40:
                r["violations"].append(C.viol("in-domain-object-cannot-be-built", dict(case_key(case), exc=type(e).__name__),
                                              {"error": repr(e)[:200]}, case))
            continue
        vs, b = conformance(obj, case, case_key(case))
        r["evals"] += 1
        r["digests"].add(C.h8(b))
        if len(r["violations"]) < 40:
            r["violations"] += vs
        if kind == "cases" and tweak_in_place(obj):
            # the object has been written once; after an in-place edit the NEXT file must describe the edited object
            vs2, b2 = conformance(obj, dict(case, second_save=True), dict(case_key(case), second_save=True))
            r["evals"] += 1
            C.count(r, "second_saves")
            r["digests"].add(C.h8(b2))
            if len(r["violations"]) < 40:
                r["violations"] += vs2
        if (kind == "cases" or (kind == "moddevs" and not k2 and case.get("kind") == "synth" and not case.get("attached"))) and b:
            # ... and the same for an object that was LOADED from what was written (whatever the reader keeps from the
            # file -- raw records, unknown bits -- must not leak into the next file after an edit)
            try:
                o3 = C.load_bytes(b)
                if tweak_in_place(o3):
                    vs3, b3 = conformance(o3, dict(case, loaded_then_edited=True), dict(case_key(case), loaded_then_edited=True))
                    r["evals"] += 1
                    C.count(r, "loaded_then_edited")
                    if len(r["violations"]) < 40:
                        r["violations"] += vs3
            except Exception as e:
                if len(r["violations"]) < 40:
                    r["violations"].append(C.viol("written-file-not-loadable-or-editable", dict(case_key(case), exc=type(e).__name__),
                                                  {"error": repr(e)[:200]}, case))
    if cases:
        r["sample"] = cases[-1]
    return r


def extra_cases(ctx):
    out = []
    try:
        from checks import c15, c16

        out += [{"kind": "extra", "from": "c15", "case": c} for c in c15.object_cases(ctx)]
        out += [{"kind": "extra", "from": "c16", "case": c} for c in c16.object_cases(ctx)]
    except ImportError:
        pass
    return out


def run(ctx):
    treeenv.setup()
    cases = c01.all_cases(ctx) + extra_cases(ctx)
    tk = deviate.type_keys()
    prs = [(a, b) for a in tk for b in tk] if ctx.thorough else [(tk[i], tk[(i + 1 + ctx.seed) % len(tk)]) for i in range(len(tk))]
    for a, b in prs:
        cases.append({"kind": "module", "mods": [[a, []], [b, []]], "links": [[1, 2], [2, 1], [1, 0], [2, 0]]})
    for k in tk:
        cases.append({"kind": "module", "mods": [[k, []]]})
        cases.append({"kind": "synth", "type": k, "devs": []})
    tasks = [("cases", cases[i:i + 40]) for i in range(0, len(cases), 40)]
    for k in tk:
        n = len(deviate.module_devs(k, ctx.seed)) + 1
        for lo in range(0, n, 60):
            tasks.append(("moddevs", k, ctx.seed, lo, min(n, lo + 60), False))
    for k in tk:
        n = sum(1 for _ in deviate.pairs(deviate.reduced_devs(k, ctx.seed)))
        for lo in range(0, n, 400):
            tasks.append(("moddevs", k, ctx.seed, lo, min(n, lo + 400), "reduced"))
    if ctx.thorough:
        for k in tk:
            devs = deviate.module_devs(k, ctx.seed, spikes="few", opt8="few")
            n = sum(1 for _ in deviate.pairs(devs, common_pairs=(k == 'Amplifier')))
            for lo in range(0, n, 3000):
                tasks.append(("moddevs", k, ctx.seed, lo, min(n, lo + 3000), True))
    from rvmc.runner import rotate

    agg = C.Agg()
    for r in ctx.pmap(_task, rotate(tasks, ctx.seed)):
        agg.merge(r)
    ctx.add(agg.violations)
    return {
        "evaluations": agg.evals,
        "distinct_nontrivial": max(0, len(agg.digests) - 1),
        "rule": "every object of the C01/C02 (and C15/C16) enumerations written by rv and decoded by the independent decoder; "
                "distinct_nontrivial = distinct written files other than the default one",
        "exhaustive": True, "k": 2 if ctx.thorough else 1,
        "rejected_by_api": agg.counters.get("rejected", 0), "second_saves_after_in_place_edit": agg.counters.get("second_saves", 0),
        "loaded_then_edited_then_saved": agg.counters.get("loaded_then_edited", 0),
        "samples": agg.samples,
    }
