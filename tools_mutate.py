#!/venv/bin/python
"""Systematic first-order mutants of the code the properties are anchored in — a complement to the hand-made seeded
faults: every mutant that the repository's own test-suite does NOT notice is run against the quick checks of the
properties anchored in that file.

  tools_mutate.py list                     # how many mutants per file
  tools_mutate.py run [stride] [workers]   # every stride-th mutant; results -> mutation/results.jsonl (appended)
  tools_mutate.py report                   # summary table -> mutation/REPORT.md

Mutation operators (textual, on the span of an AST node, so that the diff is one token wide):
  comparison  < <= > >= == != is / is not, in / not in     boolean  and <-> or, `not x` -> x
  arithmetic  + <-> -, << <-> >>, & <-> |, * -> //          constants n -> n+1, True <-> False, -1 -> 0
  statements  an assignment / expression statement / augmented assignment -> pass; break <-> continue; `return x` -> return None
Nothing is ever written to /repo: each worker owns a scratch worktree under /tmp, removed at the end.
"""
import ast
import json
import os
import shutil
import subprocess
import sys
import time

HERE = os.path.dirname(os.path.abspath(__file__))
OUT = os.path.join(HERE, "mutation")
SRC = "src/python/rv"
SKIP_FUNCS = {"__repr__", "__str__", "layout", "on_embedded_controller_changed"}


def anchored_files():
    files = {}
    for line in open(os.path.join(HERE, "properties.jsonl")):
        d = json.loads(line)
        for f in d["anchors"]["files"]:
            if f.startswith(SRC) and f.endswith(".py") and "*" not in f and "/base/" not in f:
                files.setdefault(f, set()).add(d["id"])
    return {f: sorted(ids) for f, ids in sorted(files.items())}


CMP = {ast.Lt: "<=", ast.LtE: "<", ast.Gt: ">=", ast.GtE: ">", ast.Eq: "!=", ast.NotEq: "==", ast.Is: "is not",
       ast.IsNot: "is", ast.In: "not in", ast.NotIn: "in"}
BIN = {ast.Add: "-", ast.Sub: "+", ast.LShift: ">>", ast.RShift: "<<", ast.BitAnd: "|", ast.BitOr: "&", ast.Mult: "//"}
SYM = {ast.Lt: "<", ast.LtE: "<=", ast.Gt: ">", ast.GtE: ">=", ast.Eq: "==", ast.NotEq: "!=", ast.Is: "is", ast.IsNot: "is not",
       ast.In: "in", ast.NotIn: "not in", ast.Add: "+", ast.Sub: "-", ast.LShift: "<<", ast.RShift: ">>", ast.BitAnd: "&",
       ast.BitOr: "|", ast.Mult: "*", ast.And: "and", ast.Or: "or"}


class Src:
    def __init__(self, text):
        self.text = text
        self.lines = text.splitlines(keepends=True)
        self.off = [0]
        for l in self.lines:
            self.off.append(self.off[-1] + len(l))

    def pos(self, lineno, col):
        # ast columns are UTF-8 byte offsets; the files are ASCII where it matters
        return self.off[lineno - 1] + col

    def span(self, node):
        return self.pos(node.lineno, node.col_offset), self.pos(node.end_lineno, node.end_col_offset)


def replace_between(src, a, b, old, new):
    """Replace the single occurrence of token `old` in text[a:b] (the gap between two operand nodes)."""
    seg = src.text[a:b]
    i = seg.find(old)
    if i < 0 or seg.count(old) != 1:
        return None
    return src.text[:a] + seg[:i] + new + seg[i + len(old):] + src.text[b:]


def mutants_of(path):
    text = open(path).read()
    src = Src(text)
    tree = ast.parse(text)
    out = []

    def add(kind, node, new_text):
        if new_text and new_text != text:
            out.append({"kind": kind, "line": node.lineno, "text": new_text})

    func_stack = []

    class V(ast.NodeVisitor):
        def visit_FunctionDef(self, node):
            if node.name in SKIP_FUNCS:
                return
            func_stack.append(node.name)
            self.generic_visit(node)
            func_stack.pop()

        def visit_Compare(self, node):
            operands = [node.left] + node.comparators
            for i, op in enumerate(node.ops):
                a = src.span(operands[i])[1]
                b = src.span(operands[i + 1])[0]
                if type(op) in CMP:
                    add("cmp", node, replace_between(src, a, b, SYM[type(op)], CMP[type(op)]))
            self.generic_visit(node)

        def visit_BinOp(self, node):
            if type(node.op) in BIN and not (isinstance(node.op, ast.Mod)):
                a = src.span(node.left)[1]
                b = src.span(node.right)[0]
                if not (isinstance(node.left, ast.Constant) and isinstance(node.left.value, str)):
                    add("bin", node, replace_between(src, a, b, SYM[type(node.op)], BIN[type(node.op)]))
            self.generic_visit(node)

        def visit_BoolOp(self, node):
            for x, y in zip(node.values, node.values[1:]):
                a, b = src.span(x)[1], src.span(y)[0]
                old = SYM[type(node.op)]
                add("bool", node, replace_between(src, a, b, old, "or" if old == "and" else "and"))
            self.generic_visit(node)

        def visit_UnaryOp(self, node):
            if isinstance(node.op, ast.Not):
                a, b = src.span(node)
                oa, ob = src.span(node.operand)
                add("not", node, src.text[:a] + src.text[oa:ob] + src.text[b:])
            self.generic_visit(node)

        def visit_Constant(self, node):
            if not func_stack:
                return
            a, b = src.span(node)
            v = node.value
            if isinstance(v, bool):
                add("const", node, src.text[:a] + str(not v) + src.text[b:])
            elif isinstance(v, int) and not isinstance(v, bool) and src.text[a:b].lstrip("-").replace("_", "").isdigit():
                add("const", node, src.text[:a] + str(v + 1) + src.text[b:])
                if v not in (0,):
                    add("const", node, src.text[:a] + str(v - 1) + src.text[b:])

        def _stmt(self, node):
            if not func_stack:
                return
            a, b = src.span(node)
            if isinstance(node, ast.Expr) and isinstance(node.value, ast.Constant):
                return      # docstring
            if isinstance(node, ast.Expr) and "log." in src.text[a:b]:
                return
            add("del", node, src.text[:a] + "pass" + src.text[b:])

        def visit_Assign(self, node):
            self._stmt(node)
            self.generic_visit(node)

        def visit_AugAssign(self, node):
            self._stmt(node)
            self.generic_visit(node)

        def visit_Expr(self, node):
            self._stmt(node)
            self.generic_visit(node)

        def visit_Break(self, node):
            a, b = src.span(node)
            add("brk", node, src.text[:a] + "continue" + src.text[b:])

        def visit_Continue(self, node):
            a, b = src.span(node)
            add("brk", node, src.text[:a] + "break" + src.text[b:])

        def visit_Return(self, node):
            if node.value is not None and func_stack:
                a, b = src.span(node)
                add("ret", node, src.text[:a] + "return None" + src.text[b:])
            self.generic_visit(node)

    V().visit(tree)
    good = []
    for m in out:
        try:
            ast.parse(m["text"])
            good.append(m)
        except SyntaxError:
            pass
    return good


def sh(cmd, **kw):
    return subprocess.run(cmd, shell=True, capture_output=True, text=True, **kw)


def all_mutants():
    res = []
    for f, ids in anchored_files().items():
        for i, m in enumerate(mutants_of(os.path.join("/repo", f))):
            res.append({"file": f, "n": i, "kind": m["kind"], "line": m["line"], "props": ids, "text": m["text"]})
    return res


# cheaper / more specific checks first; a mutant counts as detected at the first check that reports a VIOLATION
ORDER = ["C12", "C16", "C15", "C04", "C13", "C19", "C10", "C03", "C11", "C18", "C14", "C20", "C09", "C17", "C01", "C08", "C05",
         "C02", "C07", "C06"]


def worker(wid, todo, nproc):
    wt = f"/tmp/rv-mut-wt-{os.getpid()}-{wid}"
    sh(f"git -C /repo worktree remove --force {wt}")
    shutil.rmtree(wt, ignore_errors=True)
    assert sh(f"git -C /repo worktree add --detach {wt} HEAD").returncode == 0
    os.makedirs(OUT, exist_ok=True)
    try:
        for m in todo:
            path = os.path.join(wt, m["file"])
            orig = open(path).read()
            open(path, "w").write(m["text"])
            rec = {k: m[k] for k in ("file", "n", "kind", "line", "props")}
            rec["diff"] = sh(f"git -C {wt} diff -U0 -- {m['file']}").stdout.split("@@", 2)[-1][-400:]
            t0 = time.time()
            r = sh(f"cd {wt} && PYTHONPATH={wt}/src/python timeout 120 /venv/bin/python -m pytest -q -p no:cacheprovider "
                   f"--timeout=60 --continue-on-collection-errors 2>&1 | tail -1")
            rec["suite"] = r.stdout.strip()[-80:]
            survived = "170 passed" in rec["suite"] and "failed" not in rec["suite"] and "1 error" in rec["suite"]
            rec["survives_suite"] = survived
            if survived:
                rec["detected_by"] = None
                rec["silent"] = []
                env = dict(os.environ, RV_VERIF_REPO=wt, RV_VERIF_OUT=f"{wt}/.verif-out", VERIF_SEED="0", RV_VERIF_NPROC=str(nproc))
                for pid in sorted(m["props"], key=ORDER.index):
                    c = subprocess.run([os.path.join(HERE, "check"), pid], capture_output=True, text=True, env=env)
                    lines = [l for l in c.stdout.splitlines() if l.startswith("VIOLATION") or l.startswith("  subcheck")]
                    if c.returncode == 1 and lines:
                        rec["detected_by"] = pid
                        rec["first"] = lines[1][:200] if len(lines) > 1 else lines[0][:200]
                        break
                    if c.returncode not in (0, 1):
                        rec.setdefault("crashed", []).append(pid)
                    rec["silent"].append(pid)
            rec["secs"] = round(time.time() - t0, 1)
            open(path, "w").write(orig)
            with open(os.path.join(OUT, "results.jsonl"), "a") as f:
                f.write(json.dumps(rec) + "\n")
            print(wid, rec["file"].split("/")[-1], rec["n"], rec["kind"], "L%d" % rec["line"],
                  "killed-by-suite" if not survived else ("detected " + rec["detected_by"] if rec["detected_by"] else "UNDETECTED"),
                  rec["secs"], flush=True)
    finally:
        sh(f"git -C /repo worktree remove --force {wt}")
        shutil.rmtree(wt, ignore_errors=True)
        sh("git -C /repo worktree prune")


def main():
    cmd = sys.argv[1] if len(sys.argv) > 1 else "list"
    if cmd == "list":
        tot = 0
        for f, ids in anchored_files().items():
            n = len(mutants_of(os.path.join("/repo", f)))
            tot += n
            print(f"{n:5d} {f} {','.join(ids)}")
        print(tot, "mutants")
    elif cmd == "run":
        stride = int(sys.argv[2]) if len(sys.argv) > 2 else 10
        workers = int(sys.argv[3]) if len(sys.argv) > 3 else 3
        offset = int(sys.argv[4]) if len(sys.argv) > 4 else 0
        done = set()
        p = os.path.join(OUT, "results.jsonl")
        if os.path.exists(p):
            for l in open(p):
                d = json.loads(l)
                done.add((d["file"], d["n"]))
        todo = [m for i, m in enumerate(all_mutants()) if i % stride == offset and (m["file"], m["n"]) not in done]
        print(len(todo), "mutants to run", flush=True)
        import multiprocessing as mp

        procs = [mp.Process(target=worker, args=(w, todo[w::workers], max(4, 16 // workers))) for w in range(workers)]
        for pr in procs:
            pr.start()
        for pr in procs:
            pr.join()
    elif cmd == "report":
        rows = [json.loads(l) for l in open(os.path.join(OUT, "results.jsonl"))]
        surv = [r for r in rows if r["survives_suite"]]
        det = [r for r in surv if r.get("detected_by")]
        und = [r for r in surv if not r.get("detected_by")]
        with open(os.path.join(OUT, "REPORT.md"), "w") as f:
            f.write(f"# First-order mutants of the anchored files\n\n{len(rows)} mutants run; {len(rows) - len(surv)} noticed by the "
                    f"repository's own test-suite; of the {len(surv)} it does not notice, {len(det)} are reported by a quick check "
                    f"of a property anchored in the file, {len(und)} are not (triage in DESIGN.md 12.8).\n\n")
            f.write("| file | mutants | survive the suite | reported by a check | not reported |\n|---|---|---|---|---|\n")
            byf = {}
            for r in rows:
                b = byf.setdefault(r["file"], [0, 0, 0, 0])
                b[0] += 1
                if r["survives_suite"]:
                    b[1] += 1
                    b[2 if r.get("detected_by") else 3] += 1
            for k, b in sorted(byf.items()):
                f.write(f"| {k} | {b[0]} | {b[1]} | {b[2]} | {b[3]} |\n")
            f.write("\n## Not reported\n\n")
            for r in und:
                f.write(f"* `{r['file']}` line {r['line']} ({r['kind']}), checks run: {','.join(r.get('silent', []))}\n\n```\n{r['diff'].strip()}\n```\n")
        print(len(rows), len(surv), len(det), len(und))


if __name__ == "__main__":
    main()
