"""Violation records, replay files, VIOLATION / KNOWN-FINDING lines, known-findings matching.

A violation is a plain dict:
    {"subcheck": str, "key": {str: json}, "case": json, "detail": json}
`key` identifies *what* fails in a stable way (type / controller / op pattern / path ...);
`case` is the replayable input (interpreted by the owning check's `run_case`).

known_findings.json (committed, never written at run time) lists genuine defects recorded
rather than repaired.  A finding matches a violation iff property and subcheck are equal and
every key of its "match" dict equals the violation's key entry (no wildcards).
"""
import hashlib
import json
import os

from . import treeenv

KNOWN_PATH = os.path.join(treeenv.VERIF, "known_findings.json")
MAX_PRINTED = 40


def _jsonable(o):
    if isinstance(o, bytes):
        return {"__bytes__": o.hex()}
    if isinstance(o, (set, frozenset)):
        return sorted(_jsonable(x) for x in o)
    if isinstance(o, tuple):
        return [_jsonable(x) for x in o]
    if isinstance(o, list):
        return [_jsonable(x) for x in o]
    if isinstance(o, dict):
        return {str(k): _jsonable(v) for k, v in o.items()}
    if isinstance(o, (int, float, str, bool)) or o is None:
        return o
    return repr(o)


def unjson(o):
    if isinstance(o, dict):
        if set(o.keys()) == {"__bytes__"}:
            return bytes.fromhex(o["__bytes__"])
        return {k: unjson(v) for k, v in o.items()}
    if isinstance(o, list):
        return [unjson(x) for x in o]
    return o


def load_known():
    if not os.path.exists(KNOWN_PATH):
        return {"findings": [], "fixed": []}
    with open(KNOWN_PATH) as f:
        return json.load(f)


def match_known(property_id, v, known):
    for k in known.get("findings", []):
        if k.get("property") != property_id or k.get("subcheck") != v["subcheck"]:
            continue
        m = k.get("match", {})
        key = _jsonable(v.get("key", {}))
        if all(key.get(a) == b for a, b in m.items()):
            return k
    return None


def violation_id(property_id, v):
    blob = json.dumps(
        [property_id, v["subcheck"], _jsonable(v.get("key", {}))], sort_keys=True
    )
    return hashlib.sha1(blob.encode()).hexdigest()[:12]


def report(property_id, violations, seed, tier):
    """Deduplicate by (subcheck, key), write replay files, print lines.

    Returns (n_new, n_known).  The caller exits 1 iff n_new > 0.
    """
    known = load_known()
    by_id = {}
    for v in violations:
        by_id.setdefault(violation_id(property_id, v), v)
    new, known_hits = [], {}
    for vid, v in sorted(by_id.items()):
        k = match_known(property_id, v, known)
        if k is not None:
            known_hits.setdefault(json.dumps(k, sort_keys=True), (k, 0))
            kk, n = known_hits[json.dumps(k, sort_keys=True)]
            known_hits[json.dumps(k, sort_keys=True)] = (kk, n + 1)
        else:
            new.append((vid, v))
    for _s, (k, n) in sorted(known_hits.items()):
        print(f"KNOWN-FINDING: property={property_id} {k.get('what', '')} [{n} case(s)]")
    rdir = os.path.join(treeenv.OUT, "replays", property_id)
    for i, (vid, v) in enumerate(new):
        if i >= MAX_PRINTED:
            print(f"... {len(new) - MAX_PRINTED} further distinct violations not printed")
            break
        os.makedirs(rdir, exist_ok=True)
        path = os.path.join(rdir, f"{vid}.json")
        rec = {
            "property": property_id,
            "subcheck": v["subcheck"],
            "key": _jsonable(v.get("key", {})),
            "case": _jsonable(v.get("case")),
            "detail": _jsonable(v.get("detail")),
            "tree": treeenv.tree_commit(),
            "seed": seed,
            "tier": tier,
        }
        with open(path, "w") as f:
            json.dump(rec, f, indent=1, sort_keys=True)
        print(f"VIOLATION property={property_id} replay={path}")
        d = json.dumps(rec["detail"], sort_keys=True)
        print(f"  subcheck={v['subcheck']} key={json.dumps(rec['key'], sort_keys=True)} detail={d[:400]}")
    return len(new), sum(n for _k, n in known_hits.values())
