#!/venv/bin/python
"""Regenerates MANIFEST.json from the table below (kept in one place so it stays valid)."""
import json, os

HERE = os.path.dirname(os.path.abspath(__file__))

CHECKS = {
 "C03": dict(level="exploration", ref="DESIGN.md §5 C03",
   technique="deviation-bounded exhaustive enumeration of written files, each decoded by an independent reference decoder (differential / translation-style oracle)",
   text="Every object of the C01/C02 enumerations (project fields, 146 names, pattern lists and note cells, every module type x every single deviation through BOTH writers, linked type pairs, every pair of the reduced boundary menu; thorough: all deviation pairs) and the MetaModule/Sampler objects of C15/C16 is written by rv (and written a second time after in-place edits) and decoded by rvref.codec, a strict grammar-driven decoder written only from the format documentation and the YAML by a separate author: the stream must parse completely, no structural rule may be violated (SNAM 32 bytes, PDTA = lines x tracks x 8, one CVAL per attached controller, 8 CMID bytes per value, CHNM < CHNK, options record covers the highest byte, 400-byte sampler record, 44-byte sample meta, envelope size, PEND/SEND closing, header order) and the decoded content must equal snapshot(object).",
   note="Trusted base: rvref.codec/spec (independent of rv; 52/52 fixtures decode completely). Layout facts the docs do not state (SFGS bit positions, SLnK placement) come from fixtures/CHANGELOG and are listed in rvref/SHAPE.md; a symmetric rv error there is out of reach."),
 "C04": dict(level="exploration", ref="DESIGN.md §5 C04",
   technique="exhaustive enumeration of reference-encoded files and of every structure-preserving edit of every file, against an independent decoder",
   text="Files written by the independent encoder for every module type x every single deviation (synth and project), gap patterns at every subset of 4 slots x 5 link layouts rv never writes, sampler records whose legacy map differs from the current one; all 52 fixtures; and for every fixture and each type's default files EVERY edit: unknown chunk inserted at each position (also nested), each optional chunk occurrence dropped, each CVAL list truncated to every length, every adjacent header transposition. snapshot(load(file)) must equal the decoder's value with documented defaults; unknown chunks change neither the snapshot nor the re-saved bytes.",
   note="N16: fields without chunk and without documented default are not compared; N5 flags; CHNK not a public field; Output's name is fixed by the library. rvref is the trusted reference."),
 "C06": dict(level="exploration", ref="DESIGN.md §5 C06",
   technique="exhaustive enumeration of (loaded file, module, catalogue edit) triples with a save/load differential oracle",
   text="All 52 fixtures, each module type's default files and the MetaModule/Sampler objects of C15/C16 are loaded; for every module every catalogue edit (every controller x alphabet, every option value, common fields, MIDI bindings, payload elements incl. in-place forms, sampler samples/envelopes/map/effect, MetaModule count/labels/mappings/inner project), every project field corner and note/pattern edits: set on the LOADED object, save, load: the reloaded snapshot equals the edited object's snapshot (no stale bytes replayed), and the edit changed nothing outside the edited module/field.",
   note="One edit per loaded object. Couplings excused: MultiCtl fan-out to linked targets; edits the API rejects are counted."),
 "C15": dict(level="exploration", ref="DESIGN.md §5 C15",
   technique="exhaustive enumeration of MetaModule configurations (all counts 0..96, nesting depth, mapping kind x raw boundary, labels) with round-trip + independent-decode oracles",
   text="Nesting chains of depth 0..3 (thorough 0..5 + a branch) with one-deviation innermost modules; user-controller count over ALL 0..96; for n in {0,1,2,95,96} mappings of boundary slots (and one slot >= n) onto every controller kind with stored values at the raw boundaries; labels {None, empty, ASCII, non-ASCII, 40 chars} at boundary indices; both contexts and clone(). Recursive snapshot equality, count, attached flags == [True]*n+[False]*(96-n); independently decoded file has exactly 5+n CVALs, labels only below n, 96 mappings.",
   note="User-defined controllers are compared by stored value (N13)."),
 "C16": dict(level="exploration", ref="DESIGN.md §5 C16",
   technique="deviation-bounded exhaustive enumeration of Sampler instruments + legacy fixture variants",
   text="All 16 subsets of slots {0,1,2,127}, each single slot 0..127, 5 data shapes x 3 formats x 2 channel counts, every sample field at struct-width corners, every envelope (7) with 0/1/4/12/13 points, 16-bit and range corners, all 8 flag combinations, index and byte fields, each of 119 note-map keys individually and three whole maps, vibrato/fadeout/editor corners, embedded effects, controllers/options; each through Synth write/read, clone() and Project write/read with slot indices stable. Legacy: the fixture as is, without envelope chunks (conversion checked against y*0x200+min from the documented offsets), with altered signature: re-save keeps what was loaded.",
   note="Volume/panning envelope indices stay within the 8-bit legacy fields the record also carries. One deviation at a time."),
 "C05": dict(level="model_checking", ref="DESIGN.md §5 C05",
   technique="explicit-state exploration of the open/save machine (state = file bytes, transition = save(load(X))) from an exhaustive set of initial files",
   text="Initial states: all 52 fixtures, rv-written files for every module type x every single deviation, and every fixture with each stored controller value / options byte / link or slot entry / note velocity replaced by boundary and out-of-range values (also inside embedded projects and effects; ~4 100 mutants). Each loadable X is driven through 3 (thorough 5) load/save transitions: the chain must be constant from Y1 on, write_to must not change the object's snapshot, two consecutive write_to give equal bytes.",
   note="Unloadable mutants are outside the quantifier and only counted. A deterministic byte function can only start drifting at the first cycle, so few cycles decide all n."),
 "C08": dict(level="model_checking", ref="DESIGN.md §5 C08",
   technique="explicit-state BFS over Project.connect (C07 driver) with save/load and all SLnK-subset file variants evaluated once per reached state",
   text="Every link state reached by single-operand requests to depth 4 (thorough 5) and by the full list/~ alphabet to depth 1 (thorough 2) is saved and loaded: the four link tables must come back exactly (up to trailing freed slots). On the written bytes every subset of slot chunks is removed and every subset of missing ones added; after loading, invariants I1-I4 hold and the directed edge set equals the saved one.",
   note="Slot order is only demanded when the file carries slots for every linked module. Chunk edits via rvref.codec. States deeper than the stated depths are not round-tripped."),
 "C12": dict(level="exploration", ref="DESIGN.md §5 C12",
   technique="complete enumeration of (old word, sub-field, new value) triples, note cells and pattern images",
   text="Every NOTECMD x every velocity, all 65 536 values of module/ctl/val through the 8-byte codec; k-distinct pattern images for 20 shapes through Pattern.raw_data and through a PDTA chunk (load, save, independent decode: row-major, byte-identical); packed words: note ctl/val sub-field setters for every old high byte x {0,0xA5,0xFF} low byte and vice versa (thorough: all 65 536 old words) x all 256 new values; visualization words over all defined members x reserved bits clear/set x every sub-field x every in-domain value; MIDI-in and sync flags for every (old, new) pair through SMII/SFGS incl. independent decode.",
   note="Visualization setters are exercised on the word object (module.visualization returns a fresh wrapper)."),
 "C14": dict(level="model_checking", ref="DESIGN.md §5 C14",
   technique="explicit-state BFS over attach/new_module/+=/attach_pattern/reload with a lock-step reference model of slot layout and ownership",
   text="From the empty project, from 16 reference-encoded files with every pattern of empty positions among slots 1..4 and from the issue54 fixture, every history of 16 operations up to depth 4 (thorough 5): index == position, parent is the project, position 0 is the Output, patterns owned, new module lands in the lowest empty position else at the end with all other positions holding the same objects, refused attaches raise the ownership error and leave both projects' snapshots unchanged, double attach is a no-op, note.mod resolves for every module number 0..len+1.",
   note="Model written from the property text. A project with a second Output() is checked for invariants but never reloaded."),
 "C17": dict(level="model_checking", ref="DESIGN.md §5 C17",
   technique="exhaustive (A, B) pair exploration: every catalogue/in-place operation history (depth 1, depth 2 for in-place ops) with every B origin observed",
   text="For every module type (and Project/Pattern/Synth): every catalogue deviation and every in-place payload mutation (list element assignment, append, mapping field, link list, MIDI map, envelope, note map, sample, MetaModule count/label/mapping/inner project) applied to A, and every ordered pair of in-place operations; B obtained independently, by clone(), by loading A's bytes and by construction afterwards must keep snapshot and written bytes; clone->original direction; saving/loading/cloning A does not change A; class controller registries and the strictness flag unchanged.",
   note="Observation is rvmc.snapshot + written bytes. Pristine defaults are captured in the parent process before any mutation."),
 "C18": dict(level="fault_enumeration", ref="DESIGN.md §5 C18",
   technique="exhaustive single-fault enumeration at the file-object seam (every read/seek/tell index, every chunk-reader construction, every truncation point)",
   text="For every fixture x both initial flag values x {caller's file object, path opened by the library}: OSError at each read/seek/tell call, an exception at each construction of the IFF chunk reader (reaches nested loads), truncation at every chunk boundary and every byte (<4 KiB files; thorough: all), nested containers truncated at their own chunk boundaries, unknown module type, out-of-range value. After return or raise the flag is the identical previous value, a library-opened handle is closed, the caller's handle is not, and a strict out-of-range assignment still raises.",
   note="Path mode wraps pathlib.Path.open from the check (no source hook). Single-fault plans only."),
 "C19": dict(level="fault_enumeration", ref="DESIGN.md §5 C19",
   technique="exhaustive fault-point enumeration (failure at every cell / yield index) over all bulk-edit histories up to depth 2 (3)",
   text="Shapes {1,2,3}^2 (thorough {1..4}^2), attached and unattached patterns; ops: set_via_fn ok / failing at every cell, set_via_gen yielding none/each cell/a row/all and failing after every yield count; every history of length <= 2 (3). A failed edit leaves cells and raw_data identical; a successful edit installs exactly the supplied notes, keeps untouched cells, and every note's pattern is the pattern (project-aware accessors work).",
   note="Reference grid of 5-tuples; callables return fresh Note objects."),
 "C20": dict(level="exploration", ref="DESIGN.md §5 C20",
   technique="complete enumeration of the value axis (all 32 769 inputs) end to end on real modules over a fixed parameter grid; all 502 macro targets",
   text="MultiCtl.macro for every (type, controller), 16 / 17 targets, duplicate module; for each distinct fixed-range span (10 quick, all 51 thorough) and each tuple of a gain x quantization x window (both orientations) x curve grid (36 quick / ~115 thorough) every input 0..32768 is delivered through MultiCtl.value: delivered value within the target's range and monotone in the input; a link whose mapping names no controller leaves the target's snapshot unchanged on every type.",
   note="Parameter tuples are a fixed grid (the property's own quantifier says so); the value axis is complete. Curves are monotone tables."),
 "C01": dict(level="model_checking", ref="DESIGN.md §5 C01",
   technique="deviation-bounded exhaustive enumeration of projects + explicit-state BFS of a builder machine, save/load round trip as per-state oracle",
   text="Every project with at most one deviation from the default (each project field x width corners, 146 names placing a 1-4 byte character at every offset around the 32-byte limit, every pattern/clone/empty sequence of length <= 3, every NOTECMD and 16-bit corner in note cells, each of 42 module types x every single deviation of its controllers/options/common fields/MIDI bindings/payload arrays, linked type pairs) and every state of a builder machine (attach/empty slot/connect/disconnect/pattern/note/field/controller ops, depth 5 quick / 6 thorough) is saved and loaded; the loaded snapshot must equal the original and the load must not raise.",
   note="Trusted: rvmc.snapshot lists every serialised public attribute; names compare up to the documented 32-byte prefix; sunvox_version (writer version) is not varied. Bounded as stated; k=2 only for module-type pairs."),
 "C02": dict(level="exploration", ref="DESIGN.md §5 C02",
   technique="deviation-bounded exhaustive input enumeration (k=1 quick, k=2 thorough) on the real writers/readers",
   text="For each of the 42 non-Output types the default module and every single deviation (every controller x boundary alphabet, every enum member, unit-dependent ranges under every unit, every option value, common fields at documented corners, MIDI bindings, every array element spike and fill pattern) goes through Synth write/read, Module.clone() and Project write/read; snapshots must be equal per context and across contexts; every pair of a reduced boundary menu (each controller at min/max, each option at its extremes, unit extremes, compound MetaModule/MultiCtl deviations; 56 k pairs) is round-tripped too; thorough adds every compatible pair of the full menu (~1 M). Also: save -> in-place edit -> save for every in-place operation (on built and on loaded modules), a save failing at every write index / abandoned after every chunk must not affect the next save, and the written bytes must not depend on the order in which objects were handled (three fresh interpreters). Synth(None) must refuse to serialise.",
   note="Trusted: rvmc.snapshot; N8 (placement/links not in sunsynth files). Exhaustive inside the stated deviation bound and alphabets only."),
 "C09": dict(level="exploration", ref="DESIGN.md §5 C09",
   technique="complete boundary enumeration of (controller, mode, assignment sequence of length <= 2)",
   text="All 43 types x 502 specified controllers (list from the YAML): default value and type vs the spec; every boundary/interior/out-of-range value, every enum member as member/int/name plus invalid names and values, booleans; strict and lenient mode; attribute and constructor paths; every ordered pair (v1, v2) so that a rejected assignment is checked against every previous value; a failed assignment must leave the whole module snapshot unchanged.",
   note="Ground truth is the YAML. Unit-dependent ranges are not 'fixed ranges' (warn-only by design). Values are boundary-complete, not every integer (C10 does that)."),
 "C10": dict(level="exploration", ref="DESIGN.md §5 C10",
   technique="complete enumeration of the finite domain (3.6 million controller/value pairs)",
   text="Every integer of every range of every specified controller (every unit variant), every enum member, both booleans: value -> stored -> value is the identity, stored = v - min iff min < 0 (no-offset kind: v), never negative, injective; pattern-column value non-decreasing with min -> 0 and max -> 0x8000, compact kind v - min. The whole domain is enumerated in both tiers.",
   note="Ground truth for kinds/bounds is the YAML. MetaModule proxy controllers are handled in C15."),
 "C11": dict(level="exploration", ref="DESIGN.md §5 C11",
   technique="complete enumeration of option values and value pairs + bounded exhaustive assignment sequences",
   text="All 49 options of the 5 option-bearing types: static bit-range disjointness (YAML and classes); every representable value of every option with every value of every other option (both orders, both writers) reads back after save/load and sits at its declared bits in the written record (decoded independently by rvref), inverted options stored complemented, record covers the highest byte, no stray bits; 2^6 joint-assignment windows; all assignment sequences up to depth 3 (4 thorough) over exclusive/inverted options never leave two exclusive options on; every integer -2..258 on bounded options reads back clamped.",
   note="Trusted: rvref.codec chunk parser, YAML option table. Switching an exclusive partner off when an option is switched OFF is neither demanded nor forbidden."),
 "C13": dict(level="exploration", ref="DESIGN.md §5 C13",
   technique="complete comparison of two finite tables + regeneration of generated sources",
   text="Every field the property names (registration, class name, group, default flags, controller order/number/kind/bounds/enum members/default/unit tables, option byte/bit/size/number/default/inversion/exclusivity/bounds/chunk number, array chunks) is compared for all 43 types / 502 controllers / 49 options between the imported classes and the YAML read independently of the generator; all 43 base files are regenerated from the working tree's generator and must be byte-identical to the checked-in files.",
   note="The YAML is the ground truth; genrv/black/isort as installed are used for regeneration."),
 "C07": dict(level="model_checking", ref="DESIGN.md §5 C07",
   technique="explicit-state BFS over the real Project.connect with a lock-step reference model (bounded model checking of the implementation)",
   text="Every state of a 4-module project reachable by single-operand connect/disconnect requests up to depth 5 (thorough 6), and by the full list/~ alphabet up to depth 2 (thorough 3), satisfies the mutual-consistency invariants I1-I4, and on every transition the connection set equals the reference model's; operator sugar is checked against its method form from every state of depth <= 2; requests naming a foreign module must be refused. Exhaustive within those bounds, nothing sampled.",
   note="Trusted: rvref.model.LinkModel (edge-set semantics read off the property), the harness's table reader. Bounded to 4 local modules and the stated depths; `~x >> y` is outside the alphabet."),
}

NOT_YET = {}

def main():
    props = [json.loads(l) for l in open(os.path.join(HERE, "properties.jsonl"))]
    checks = []
    na = []
    for p in props:
        pid = p["id"]
        c = CHECKS.get(pid)
        if c is None:
            na.append({"property_id": pid, "reason": NOT_YET.get(pid, "check not built yet in this revision of /verif (planned, see DESIGN.md §5)")})
            continue
        checks.append({
            "property_id": pid,
            "quick_cmd": f"./check {pid} --tier quick",
            "thorough_cmd": f"./check {pid} --tier thorough",
            "evidence_file": f"/verif/evidence/{pid}.json",
            "replay_cmd_template": f"./check {pid} --replay {{path}}",
            "engine": "rvmc",
            "level_claimed": {"category": c["level"], "text": c["text"], "design_ref": c["ref"]},
            "level_note": c["note"],
            "technique": c["technique"],
        })
    man = {
        "version": 1,
        "setup_cmd": "true",
        "hooks": {
            "guard": "RV_VERIF",
            "enable": "no source hooks are needed: every property is observed through public attributes, written bytes and file objects supplied by the checks; checks import rv from /repo/src/python (or $RV_VERIF_REPO)",
            "baseline_off_cmd": "cd /repo && /venv/bin/python -m pytest -ra -q -p no:cacheprovider --timeout=900 --continue-on-collection-errors",
            "source_commits": [],
            "add_only": True,
        },
        "engines": [
            {"name": "rvmc", "path": "/verif/rvmc", "serves_properties": sorted(CHECKS),
             "kind_free_text": "hand-written bounded exhaustive explorer for Python: explicit-state BFS with history replay and lock-step reference model (E-BFS), deviation-bounded exhaustive input enumeration (E-DEV), fault-point enumeration (E-FLT); runs the real rv code"},
            {"name": "rvref", "path": "/verif/rvref", "serves_properties": sorted(CHECKS),
             "kind_free_text": "independent reference: YAML spec tables, file-format decoder/encoder and API reference model; never imports rv"},
        ],
        "checks": checks,
        "not_applicable": na,
        "notes": "Model checking of a sequential library: all operation sequences / inputs / fault points inside stated bounds, against reference models. See DESIGN.md.",
    }
    with open(os.path.join(HERE, "MANIFEST.json"), "w") as f:
        json.dump(man, f, indent=1)
    print("MANIFEST.json:", len(checks), "checks,", len(na), "not_applicable")

if __name__ == "__main__":
    main()
