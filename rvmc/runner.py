"""Common driver: parallel task execution, aggregation, evidence, exit code.

A check module (checks/cXX.py) provides

    PROPERTY = "C07"; LEVEL = "model_checking" | "exploration" | "fault_enumeration"
    def run(ctx) -> coverage dict          # does the exploration, calls ctx.add(...)
    def run_case(case) -> list[violation]  # re-executes ONE case (used by --replay)

`ctx.pmap(fn, tasks)` runs module-level function `fn` over JSON-able coarse tasks on a
fork pool (workers inherit the already imported `rv`); results come back in task order, so
output is deterministic for a given seed.
"""
import argparse
import importlib
import json
import multiprocessing as mp
import os
import sys
import time
import traceback

from . import evidence, findings, treeenv

NPROC = int(os.environ.get("RV_VERIF_NPROC", "16"))


class Ctx:
    def __init__(self, property_id, tier, seed):
        self.property_id = property_id
        self.tier = tier
        self.seed = seed
        self.violations = []
        self.notes = []
        self.t0 = time.time()
        self._pool = None

    # -- violations -----------------------------------------------------------------
    def add(self, vs):
        if vs:
            self.violations.extend(vs)

    def note(self, msg):
        if len(self.notes) < 50:
            self.notes.append(msg)
            print(f"NOTE: {msg}")

    # -- parallel map ---------------------------------------------------------------
    def pool(self):
        if self._pool is None:
            ctxm = mp.get_context("fork")
            self._pool = ctxm.Pool(NPROC)
        return self._pool

    def pmap(self, fn, tasks, chunksize=1, safe=True):
        """Parallel map.  With safe=True an exception escaping from a task (the code under test put an object into a
        condition the harness' observation functions cannot read, or raised something unclassified) is turned into a
        violation `task-raises` instead of aborting the whole check; the task's result is then dropped."""
        tasks = list(tasks)
        call = _Safe(fn) if safe else fn
        if NPROC <= 1 or len(tasks) <= 1:
            res = [call(t) for t in tasks]
        else:
            res = self.pool().map(call, tasks, chunksize=chunksize)
        out = []
        for r in res:
            if isinstance(r, _TaskCrash):
                self.add([{"subcheck": "task-raises", "key": {"exc": r.exc, "where": r.where},
                           "case": {"task": r.task}, "detail": {"error": r.error, "traceback": r.tb}}])
            else:
                out.append(r)
        return out

    def close(self):
        if self._pool is not None:
            self._pool.close()
            self._pool.join()
            self._pool = None

    @property
    def thorough(self):
        return self.tier == "thorough"


class _TaskCrash:
    def __init__(self, task, e):
        import traceback

        self.task = repr(task)[:600]
        self.exc = type(e).__name__
        self.error = repr(e)[:300]
        tb = traceback.extract_tb(e.__traceback__)
        self.where = f"{tb[-1].name}" if tb else "?"
        self.tb = [f"{f.filename.rsplit('/', 2)[-1]}:{f.lineno} {f.name}" for f in tb[-6:]]


class _Safe:
    def __init__(self, fn):
        self.fn = fn

    def __call__(self, t):
        try:
            return self.fn(t)
        except Exception as e:      # not BaseException: KeyboardInterrupt / SystemExit still stop the run
            return _TaskCrash(t, e)


def rotate(seq, seed):
    """Seed-dependent rotation of an enumeration order (never changes the set)."""
    seq = list(seq)
    if not seq:
        return seq
    k = seed % len(seq)
    return seq[k:] + seq[:k]


def main(argv=None):
    ap = argparse.ArgumentParser()
    ap.add_argument("property")
    ap.add_argument("--tier", default=os.environ.get("VERIF_TIER", "quick"),
                    choices=["quick", "thorough"])
    ap.add_argument("--replay", default=None)
    ap.add_argument("--seed", type=int, default=int(os.environ.get("VERIF_SEED", "0") or 0))
    a = ap.parse_args(argv)
    pid = a.property.upper()
    treeenv.setup()
    mod = importlib.import_module(f"checks.{pid.lower()}")

    if a.replay:
        with open(a.replay) as f:
            rec = json.load(f)
        case = findings.unjson(rec["case"])
        if case is None or (isinstance(case, dict) and set(case) <= {"task"}):
            # recorded from a task that raised / an aborted run: the reproducer is the check itself
            print("replay: this record has no single-case reproducer; re-running the check")
            return main([pid, "--tier", a.tier, "--seed", str(a.seed)])
        vs1 = mod.run_case(case)
        vs2 = mod.run_case(case)
        k1 = sorted(findings.violation_id(pid, v) for v in vs1)
        k2 = sorted(findings.violation_id(pid, v) for v in vs2)
        if k1 != k2:
            print(f"HARNESS-ERROR: replay of {a.replay} is not deterministic")
            return 2
        want = findings.violation_id(pid, {"subcheck": rec["subcheck"], "key": rec["key"]})
        hit = [v for v in vs1 if findings.violation_id(pid, v) == want]
        if hit:
            print(f"VIOLATION property={pid} replay={a.replay}")
            print("  " + json.dumps(findings._jsonable(hit[0].get("detail")), sort_keys=True)[:600])
            return 1
        if vs1:
            print(f"replay: recorded violation not reproduced, but {len(vs1)} other violation(s) seen:")
            for v in vs1[:5]:
                print("  ", v["subcheck"], json.dumps(findings._jsonable(v.get("key"))))
            print(f"VIOLATION property={pid} replay={a.replay}")
            return 1
        print(f"replay: no violation (property {pid} holds on this case)")
        return 0

    ctx = Ctx(pid, a.tier, a.seed)
    crashed = False
    try:
        cov = mod.run(ctx)
    except (MemoryError, KeyboardInterrupt):
        traceback.print_exc()
        print(f"HARNESS-ERROR: check {pid} crashed")
        ctx.close()
        return 2
    except Exception as e:
        # The exploration itself was aborted by an exception.  On the unchanged tree this never happens (every check
        # runs to completion); when it does, the code under test raised something no driver classifies or left an
        # object unreadable for the observation functions -- reported as a violation with the traceback as detail,
        # together with whatever had been found before.
        traceback.print_exc()
        tb = traceback.extract_tb(e.__traceback__)
        ctx.add([{"subcheck": "check-run-raises", "key": {"exc": type(e).__name__, "where": tb[-1].name if tb else "?"},
                  "case": None,
                  "detail": {"error": repr(e)[:300],
                             "traceback": [f"{f.filename.rsplit('/', 2)[-1]}:{f.lineno} {f.name}" for f in tb[-8:]]}}])
        cov = {"exhaustive": False, "aborted_by_exception": type(e).__name__}
        crashed = True
    ctx.close()
    wall = time.time() - ctx.t0
    # Before a violation is reported its case is re-executed twice on fresh objects; the record says
    # whether it reproduces in isolation (a history-dependent failure, e.g. one that needs an earlier
    # failed load in the same process, is still reported — the full run is then the reproducer).
    seen_ids = set()
    for v in ctx.violations:
        vid = findings.violation_id(pid, v)
        if vid in seen_ids or len(seen_ids) >= 12 or v.get("case") is None:
            continue
        seen_ids.add(vid)
        try:
            case = findings.unjson(findings._jsonable(v["case"]))
            r1 = {findings.violation_id(pid, x) for x in mod.run_case(case)}
            r2 = {findings.violation_id(pid, x) for x in mod.run_case(case)}
            v.setdefault("detail", {})
            if isinstance(v["detail"], dict):
                v["detail"]["reproduced_in_isolation"] = (vid in r1 and vid in r2)
                v["detail"]["replay_deterministic"] = (r1 == r2)
        except Exception as e:  # the replay entry point must never turn a finding into a crash
            if isinstance(v.get("detail"), dict):
                v["detail"]["reproduced_in_isolation"] = f"replay raised {type(e).__name__}"
    n_new, n_known = findings.report(pid, ctx.violations, a.seed, a.tier)
    cov.setdefault("known_finding_cases", n_known)
    if ctx.notes:
        cov.setdefault("notes", ctx.notes)
    try:
        evidence.write(pid, a.tier, a.seed, mod.LEVEL, cov, wall, n_new,
                       getattr(mod, "ASSUMPTIONS", []))
    except Exception:
        if not crashed:
            raise
        print("NOTE: the run was aborted by an exception; no evidence file written for it")
    summary = {k: v for k, v in cov.items() if isinstance(v, (int, float, bool, str)) and k != "rule"}
    print(f"{pid} tier={a.tier} seed={a.seed} wall={wall:.1f}s violations={n_new} known={n_known} "
          + " ".join(f"{k}={v}" for k, v in sorted(summary.items())))
    return 1 if n_new else 0


if __name__ == "__main__":
    sys.exit(main())
