"""C06 — edits made to a loaded object are what gets saved.

E-DEV over (file, attribute, new value): every fixture and a set of generated files (each module
type's default, the MetaModule / Sampler objects of C15/C16) is LOADED; then for every module in
it every entry of the attribute catalogue (every controller x alphabet, every option value, common
fields, MIDI bindings, payload elements incl. in-place forms, sampler samples/envelopes/map,
MetaModule count/labels/mappings/inner project), every project field and note cells: set the
new value on the loaded object, save, load.
Oracle: (1) snapshot(load(save(obj))) == snapshot(obj) for the EDITED object — this is what exposes
any replay of stale bytes; (2) the edit is visible in the object's own snapshot; (3) the edit
changed nothing outside the edited module / field (declared couplings N14 excepted).
"""
import os

from checks import c01, c17, common as C
from rvmc import deviate, snapshot as S, spec, treeenv

PROPERTY = "C06"
LEVEL = "exploration"
ASSUMPTIONS = [
    "one edit per loaded object (k = 1); alphabets as in C01/C02; values the loaded object already holds are skipped",
    "N14 couplings: MultiCtl value -> linked targets, MetaModule user controller <-> mapped embedded controller, exclusive "
    "options, unit controller -> range of its dependants; nothing else is excused",
]

_BY_TYPE = None
PROJECT_LEVEL = ("pfield", "cell", "pattr", "pclear", "pbulk", "praw", "plinks")


def key_of_type(type_string):
    global _BY_TYPE
    if _BY_TYPE is None:
        _BY_TYPE = {t.type: k for k, t in spec.types().items()}
    return _BY_TYPE.get(type_string)


def source_bytes(src):
    if "older_sampler_record" in src:
        # a Sampler file as an OLDER SunVox wrote it: the instrument record ends after the note map (0x184 bytes: no
        # max_version / editor fields) -- documented layout, "SAMP" signature present, every edit must still persist
        from rvref import codec

        data = open(os.path.join(treeenv.FIXTURES, "sampler.sunsynth"), "rb").read()
        chunks = codec.parse_chunks(data)
        out = []
        for cid, d in chunks:
            if cid == b"CHDT" and len(d) == 0x190 and d[0xFC:0x100] == b"PMAS":
                d = d[:src["older_sampler_record"]]
            out.append((cid, d))
        return codec.build_chunks(out)
    if "fixture" in src:
        return open(os.path.join(treeenv.FIXTURES, src["fixture"]), "rb").read()
    import rv.api as rv

    if "type" in src:
        mod = deviate.new_module(src["type"])
        if src.get("ctx") == "project":
            p = rv.Project()
            p.attach_module(mod)
            p.attach_pattern(rv.Pattern(tracks=2, lines=2))
            return C.save(p)
        return C.save(rv.Synth(mod))
    from checks import c15, c16

    mod = c15 if src["objects"] == "c15" else c16
    return C.save(mod.build_object(dict(src["case"], ctx=src.get("ctx", "synth"))))


def modules_of(obj):
    from rv.project import Project

    if isinstance(obj, Project):
        return [(i, m) for i, m in enumerate(obj.modules) if m is not None]
    return [(None, obj.module)]


def edits_for_module(mod, seed):
    tkey = key_of_type(mod.mtype)
    if tkey is None:
        return []
    if tkey == "Output":
        return [{"k": "attr", "n": n, "v": v} for n, (_a, vals) in deviate.COMMON_ATTRS.items() if n != "name" for v in vals[:2]] + \
               [{"k": "flag", "n": "mute"}, {"k": "ip_links", "which": "in_links"}][:1]
    devs = deviate.module_devs(tkey, seed, spikes="few", opt8="few")
    if tkey == "Sampler":
        devs = devs + sampler_edits(mod)
    if tkey == "MetaModule":
        devs = devs + [{"k": "mm_map", "i": i, "v": [1, 0]} for i in (1, 26, 27, 63, 64, 70, 95)]
        # the count lowered and raised back: controllers hidden and exposed again keep what they held
        devs = devs + [{"k": "mm_count_bounce", "lo": lo} for lo in (0, 1)]
        # ... also in several steps (n -> n-1 -> n-2 -> n, n -> n-2 -> n-1 -> n)
        devs = devs + [{"k": "mm_count_bounce", "lo": 1, "steps": st} for st in ([-1, -2], [-2, -1], [-1, -2, -1])]
    return devs + [o for o in c17.inplace_ops(tkey) if o["k"] not in ("ip_links", "ip_ctlvalues", "ip_optvalues", "mm_uvalue")]


SMP_FIELDS = {
    "volume": [0, 33, 255], "finetune": [-128, 5, 127], "panning": [-128, 7, 127], "relative_note": [-128, 3, 127],
    "loop_start": [0, 9, 2**32 - 1], "loop_len": [0, 11, 2**32 - 1], "start_pos": [0, 13, 2**32 - 1],
    "rate": [8000, 44100, 2**32 - 1], "name": [b"", b"edited", b"n" * 22], "loop_sustain": [False, True],
    "loop_type": [0, 1, 2], "data": [b"", bytes(range(64))], "format": [1, 2, 4], "channels": [0, 8],
}
ENV_FIELDS = {"enable": [False, True], "sustain": [False, True], "loop": [False, True], "ctl_index": [0, 9, 255],
              "gain_pct": [0, 50, 255], "velocity": [0, 50, 255], "sustain_point": [0, 2, 255],
              "loop_start_point": [0, 1, 255], "loop_end_point": [0, 3, 255]}


def sampler_edits(mod):
    out = []
    for i, smp in enumerate(mod.samples):
        if smp is None:
            continue
        for f, vals in SMP_FIELDS.items():
            for v in vals:
                out.append({"k": "smp_field", "i": i, "n": f, "v": v})
        # combinations of two settings on one sample
        for lt in (0, 1, 2):
            for sus in (False, True):
                out.append({"k": "smp_loop", "i": i, "n": "loop", "lt": lt, "sus": sus})
        out.append({"k": "smp_drop", "i": i, "n": "drop"})
    from checks import c16

    for en in c16.ENVS:
        lo, hi = c16.env_range(en)
        for f, vals in ENV_FIELDS.items():
            for v in vals:
                out.append({"k": "env_field", "e": en, "n": f, "v": v})
        out.append({"k": "env_field", "e": en, "n": "points", "v": [[0, lo], [5, hi], [9, (lo + hi) // 2]]})
        out.append({"k": "env_field", "e": en, "n": "points", "v": []})
    for i in (0, 1, 60, 95, 96, 118):
        for v in (0, 1, 2, 127):
            out.append({"k": "map1", "i": i, "n": "note_samples", "v": v})
    for en in c16.ENVS:
        out.append({"k": "env_rebind", "e": en, "n": "rebind"})
    # the embedded effect removed / replaced on the loaded object BEFORE anything has read it
    out.append({"k": "sm_effect_set", "n": "none", "v": None})
    out.append({"k": "sm_effect_set", "n": "filter", "v": "Filter"})
    return out


def apply_sampler_edit(mod, e):
    from checks import c16

    k = e["k"]
    if k == "smp_field":
        s_, f, v = mod.samples[e["i"]], e["n"], e["v"]
        if f == "loop_type":
            v = mod.LoopType(v)
        elif f == "format":
            v = mod.Format(v)
        elif f == "channels":
            v = mod.Channels(v)
        setattr(s_, f, v)
    elif k == "smp_loop":
        s_ = mod.samples[e["i"]]
        s_.loop_type, s_.loop_sustain = mod.LoopType(e["lt"]), e["sus"]
    elif k == "smp_drop":
        mod.samples[e["i"]] = None
    elif k == "env_field":
        env = c16.get_env(mod, e["e"])
        v = e["v"]
        setattr(env, e["n"], [tuple(p) for p in v] if e["n"] == "points" else v)
    elif k == "map1":
        keys = list(mod.note_samples.keys())
        mod.note_samples[keys[e["i"]]] = e["v"]
    elif k == "env_rebind":
        c16.apply_spec(mod, [{"k": "env_rebind", "e": e["e"]}])       # a NEW envelope object replaces the loaded one
    elif k == "sm_effect_set":
        import rv.api as rv

        mod.effect = None if e["v"] is None else rv.Synth(getattr(rv.m, e["v"])())


def project_edits(obj):
    out = []
    for n, vals in c01.PROJECT_FIELDS.items():
        for v in (vals[1], vals[-1]):
            out.append({"k": "pfield", "n": n, "v": v})
    out.append({"k": "pfield", "n": "name", "v": "edited näme"})
    # three new modules wired up in an order that differs from their numbering, with and without a freed slot
    for name, seq in (("fan-out-out-of-order", [["c", 2, 1], ["c", 2, 0], ["c", 1, "out"]]),
                      ("freed-slot-then-link", [["c", 2, 0], ["c", 2, 1], ["d", 2, 0], ["c", 1, "out"]]),
                      ("lists", [["c", 0, "out"], ["c", 1, "out"], ["c", 2, [1, 0]], ["d", 0, "out"]])):
        out.append({"k": "plinks", "n": name, "seq": seq})
    for pi, pat in enumerate(obj.patterns):
        if pat is None:
            continue
        if hasattr(pat, "tracks"):
            out.append({"k": "pclear", "p": pi, "n": "clear", "then": [61, 5, 1, 0, 0]})
            out.append({"k": "pclear", "p": pi, "n": "clear", "then": None})
            out.append({"k": "pbulk", "p": pi, "n": "set_via_fn"})
            out.append({"k": "pbulk", "p": pi, "n": "set_via_gen"})
            out.append({"k": "praw", "p": pi, "n": "raw_data"})
            out.append({"k": "cell", "p": pi, "l": 0, "t": 0, "c": [61, 129, 2, 0x0107, 0x8001]})
            out.append({"k": "cell", "p": pi, "l": 0, "t": pat.tracks - 1, "c": [0, 0, 0x1234, 0, 0]})
            out.append({"k": "cell", "p": pi, "l": pat.lines - 1, "t": pat.tracks - 1, "c": [128, 0, 0, 0, 0]})
            out.append({"k": "pattr", "p": pi, "n": "name", "v": "pn"})
            out.append({"k": "pattr", "p": pi, "n": "x", "v": -77})
            out.append({"k": "pattr", "p": pi, "n": "flags_PFFF", "v": 0x08})
        else:
            out.append({"k": "pattr", "p": pi, "n": "x", "v": 12345})
            out.append({"k": "pattr", "p": pi, "n": "source", "v": 0})
    return out


def apply_edit(obj, mi, e):
    import rv.api as rv

    k = e["k"]
    if k == "pfield":
        v = e["v"]
        setattr(obj, e["n"], tuple(v) if isinstance(v, list) else v)
    elif k == "cell":
        n = obj.patterns[e["p"]].data[e["l"]][e["t"]]
        c = e["c"]
        n.note, n.vel, n.module, n.ctl, n.val = rv.NOTECMD(c[0]), c[1], c[2], c[3], c[4]
    elif k == "pattr":
        setattr(obj.patterns[e["p"]], e["n"], e["v"])
    elif k == "pclear":
        pat = obj.patterns[e["p"]]
        pat.clear()
        if e["then"]:
            n = pat.data[pat.lines - 1][0]
            c = e["then"]
            n.note, n.vel, n.module, n.ctl, n.val = rv.NOTECMD(c[0]), c[1], c[2], c[3], c[4]
    elif k == "plinks":
        new = [obj.new_module(rv.m.Amplifier) for _ in range(3)]

        def ref(x):
            if x == "out":
                return obj.output
            if isinstance(x, list):
                return [new[i] for i in x]
            return new[x]
        for how, a, b in e["seq"]:
            if how == "c":
                obj.connect(ref(a), ref(b))
            else:
                ref(a) >> ~ref(b)
    elif k == "pbulk":
        pat = obj.patterns[e["p"]]
        if e["n"] == "set_via_fn":
            pat.set_via_fn(lambda p_, l, t: rv.Note(note=rv.NOTECMD(1 + (l + t) % 100), vel=1 + t))
        else:
            def gen(p_, data):
                yield 0, 0, rv.Note(note=rv.NOTECMD.C5, vel=77, module=1)
            pat.set_via_gen(gen)
    elif k == "praw":
        pat = obj.patterns[e["p"]]
        pat.raw_data = bytes((i * 7 + 3) % 120 if i % 8 == 0 else (i % 100 if i % 8 == 1 else 0) for i in range(pat.lines * pat.tracks * 8))
    elif k == "mm_count_bounce":
        mod = obj.modules[mi] if mi is not None else obj.module
        n0 = mod.user_defined_controllers
        if e.get("steps"):
            for st in e["steps"]:
                mod.user_defined_controllers = max(0, n0 + st)
        else:
            mod.user_defined_controllers = min(e["lo"], n0)
        mod.user_defined_controllers = n0
    elif k in ("smp_field", "smp_loop", "smp_drop", "env_field", "map1", "env_rebind", "sm_effect_set"):
        apply_sampler_edit(obj.modules[mi] if mi is not None else obj.module, e)
    else:
        mod = obj.modules[mi] if mi is not None else obj.module
        c17.apply_inplace(mod, e)


def module_path(mi):
    return "module" if mi is None else f"modules[{mi}]"


PRESAVE_KINDS = {"env_rebind", "sm_effect_set", "cell", "pattr", "pclear", "pbulk", "praw", "elem", "fill", "mcmap", "opt", "cmid", "smp_field", "smp_loop",
                 "smp_drop", "env_field", "map1", "ip_elem", "ip_cmid", "ip_mcmap", "mm_count", "mm_label", "mm_map",
                 "mm_inner_module", "mm_inner_name", "sm_env_append", "sm_env_point0", "sm_env_flag", "sm_notemap",
                 "sm_sample", "sm_effect", "sm_vibrato", "sv_harmonic", "mmud"}


NON_PAYLOAD = {"ctl", "attr", "flag", "vis", "cmid", "opt", "unit", "ip_cmid", "ip_opt"}


def payload_edits(mod, seed, first_only=False):
    """The edits of a module's type-specific payload; first_only: one representative per (kind, target)."""
    out, seen = [], set()
    for e in edits_for_module(mod, seed):
        if e["k"] in NON_PAYLOAD:
            continue
        g = (e["k"], e.get("p"), e.get("e"), e.get("n") if e["k"] != "map1" else None)
        if first_only and g in seen:
            continue
        seen.add(g)
        out.append(e)
    return out


def check_edit(src, data, mi, e, presave=False, pre=None):
    """Returns (status, violations).  With presave the loaded object is saved once (and cloned) BEFORE the edit:
    whatever a save leaves behind (a cache of packed bytes, ...) must not make the next save ignore the edit.
    pre: an EARLIER edit of the same module (an order of two edits: e.g. a whole table is replaced, then one entry
    is changed through another accessor); the oracles then speak about the second edit."""
    case = {"src": src, "module": mi, "edit": e, "presave": presave}
    if pre:
        case["pre"] = pre
    ek = e["k"] + ":" + str(e.get("n") or e.get("p") or e.get("e") or "")
    # s0 is observed on a SEPARATE load of the same bytes: the object that is edited must not have been
    # touched by the harness before the edit (an observation could e.g. trigger a lazy decode)
    o0 = C.load_bytes(data)
    obj = C.load_bytes(data)
    if pre:
        try:
            apply_edit(o0, mi, pre)
            apply_edit(obj, mi, pre)
        except Exception as ex:
            return "rejected:" + type(ex).__name__, []
    s0 = S.snapshot(o0)
    mtype = (obj.modules[mi].mtype if mi is not None else getattr(getattr(obj, "module", None), "mtype", None)) \
        if e["k"] not in PROJECT_LEVEL else "Project"
    key = {"type": mtype, "edit": ek, "presave": presave} if presave else {"type": mtype, "edit": ek}
    if pre:
        key["after"] = pre["k"] + ":" + str(pre.get("n") or pre.get("p") or pre.get("e") or "")
    if presave:
        obj.read()
        obj.clone()
    try:
        apply_edit(obj, mi, e)
    except Exception as ex:
        return "rejected:" + type(ex).__name__, []
    # The edited object is SAVED BEFORE the harness looks at it: reading every field (e.g. indexing the MIDI-map table for
    # every controller) can itself complete lazily built state and so hide a writer that relies on that state being there.
    save_error = None
    try:
        b_first = C.save(obj)
    except Exception as ex:
        b_first, save_error = None, ex
    s1 = S.snapshot(obj)
    d01 = S.diff(s0, s1, limit=60)
    bad = postcondition(e, s1, mi)
    if bad:
        return "ok", [C.viol("edit-not-applied-as-requested", dict(key, what=bad[0]), {"edit": e, "observed": bad[1]}, case)]
    if not d01:
        # (2) an edit whose new value differs from what the loaded object held must be visible in the object
        why = should_be_visible(e, s0, mi)
        if why:
            return "no-change", [C.viol("edit-has-no-effect", dict(key, what=why), {"edit": e}, case)]
        return "no-change", []
    vs = []
    # (3) locality
    if e["k"] == "plinks":
        outside = []                # adds modules and links them: the module table is what the edit is about
    elif e["k"] in PROJECT_LEVEL:
        outside = [x for x in d01 if x[0].startswith("modules[") or x[0].startswith("module.")]
    else:
        pref = module_path(mi)
        outside = [x for x in d01 if not x[0].startswith(pref)]
        if mtype in ("MultiCtl",):
            outside = [x for x in outside if not x[0].startswith("modules[")]  # fan-out to linked targets (N14)
    # finer locality for element-wise payload edits: only the addressed element may change
    allowed = None
    k = e["k"]
    if k == "mm_count_bounce":
        allowed = ()
    elif k in ("mm_map",):
        allowed = (f"payload.mappings[{e['i']}]", "controllers")       # + the mapped user-defined controller (N14)
    elif k in ("mcmap", "ip_mcmap"):
        allowed = (f"payload.mappings[{e['i']}]",)
    elif k in ("elem", "ip_elem") and mtype != "SpectraVoice":
        allowed = (f"payload.{e['p']}[{e['i']}]",)
    elif k == "map1":
        allowed = (f"payload.note_samples[{e['i']}]",)
    elif k in ("smp_field", "smp_loop"):
        allowed = (f"payload.samples.{e['i']}.",)
    elif k == "env_field":
        en = e["e"]
        allowed = ("payload.envelopes." + (en if en.startswith("effect") else en.replace("_envelope", "")),)
    if allowed is not None and e["k"] not in PROJECT_LEVEL:
        pref = module_path(mi) + "."
        allowed = tuple(allowed) + ("chnk",)     # the declared chunk count follows the payload (Generator: no chunk while default)
        inside = [x for x in d01 if x[0].startswith(pref) and not any(x[0][len(pref):].startswith(a) for a in allowed)]
        outside = outside + inside
    if k == "mm_count":
        # changing HOW MANY user-defined controllers are exposed leaves the stored values of those exposed before and after alone
        try:
            m0 = s0["modules"][mi] if mi is not None else s0["module"]
            m1 = s1["modules"][mi] if mi is not None else s1["module"]
            keep = 5 + min(int(m0["options"]["user_defined_controllers"]), int(m1["options"]["user_defined_controllers"]))
            if m0["controllers"][:keep] != m1["controllers"][:keep]:
                outside = outside + [(module_path(mi) + ".controllers", m0["controllers"][:keep], m1["controllers"][:keep])]
        except (KeyError, TypeError, IndexError):
            pass
    if outside:
        vs.append(C.viol("edit-changes-other-state", dict(key, path=S.generic_path(outside[0][0])),
                         {"diff": S.diff_text(outside)}, case))
    # (1) what is saved is the edited object
    s1n = C.norm_project_for_compare(s1) if s1.get("kind") == "project" else dict(s1, module=C.norm_module_for_compare(s1["module"]))
    try:
        if save_error is not None:
            raise save_error
        b = b_first
        o2 = C.load_bytes(b)
    except Exception as ex:
        vs.append(C.viol("edited-object-not-saveable-or-loadable", dict(key, exc=type(ex).__name__), {"error": repr(ex)[:200]}, case))
        return "ok", vs
    d = S.diff(s1n, S.snapshot(o2))
    if not d and mtype == "MetaModule" and e["k"] in ("mm_map_late", "mm_remap_seq") and not pre:
        # N13 compares user-defined controllers by their STORED word; the value the accessor PRESENTS (the stored word
        # seen through the range mirrored from the target) must be the one that is loaded, too
        def presented(o_):
            m_ = o_.modules[mi] if mi is not None else o_.module
            out_ = []
            for i_ in range(m_.user_defined_controllers):
                v_ = getattr(m_, f"user_defined_{i_ + 1}")
                out_.append(int(getattr(v_, "value", v_)) if v_ is not None else None)
            return out_
        try:
            pa, pb = presented(obj), presented(o2)
        except Exception:
            pa = pb = None
        if pa != pb:
            vs.append(C.viol("edit-not-saved", dict(key, path="user-defined values as presented", stale_replay=False),
                             {"edited": pa[:12], "loaded": pb[:12]}, case))
    if d:
        # is the saved value the ORIGINAL one (stale replay) or something else?
        stale = any(not S.diff(a, b) for a, b in [(s0, S.snapshot(o2))])
        vs.append(C.viol("edit-not-saved", dict(key, path=S.generic_path(d[0][0]), stale_replay=bool(stale)),
                         {"diff": S.diff_text(d)}, case))
    return "ok", vs


def postcondition(e, s1, mi):
    """For edits whose requested value is explicit: the edited object must now hold exactly that value (observed in
    the canonical snapshot, i.e. where the writer reads it).  Returns (what, observed) or None."""
    k = e["k"]
    try:
        if k in PROJECT_LEVEL:
            return None
        m = s1["modules"][mi] if mi is not None else s1.get("module")
        pl = m["payload"]
        if k == "sv_harmonic":
            i = e["i"]
            got = (pl["harmonic_freqs"][i], pl["harmonic_volumes"][i], pl["harmonic_widths"][i])
            return ("harmonic", list(got)) if got != (2000, 100, 9) else None
        if k in ("elem", "ip_elem") and isinstance(e.get("v"), int) and not isinstance(e.get("v"), bool):
            got = pl[e["p"]][e["i"]]
            return ("array-element", got) if got != e["v"] else None
        if k == "map1":
            got = pl["note_samples"][e["i"]]
            return ("note-map", got) if got != e["v"] else None
        if k == "sm_effect_set":
            eff = pl.get("effect")
            got = None if eff is None else eff["module"]["type"]
            return ("embedded-effect", got) if got != e["v"] else None
        if k == "env_field" and e["n"] != "points":
            en = e["e"]
            env = pl["envelopes"][en if en.startswith("effect") else en.replace("_envelope", "")]
            if e["n"] in env:
                got = env[e["n"]]
                return ("envelope-field", got) if got != e["v"] else None
        if k == "smp_field" and e["n"] in ("volume", "finetune", "panning", "relative_note", "loop_start", "loop_len", "start_pos",
                                           "rate", "loop_sustain"):
            got = pl["samples"][e["i"]][e["n"]]
            return ("sample-field", got) if got != e["v"] else None
    except (KeyError, IndexError, TypeError):
        return None
    return None


def should_be_visible(e, s0, mi):
    """For edits made through public setters: does the requested value differ from the loaded one?  Returns a short
    reason when the edit MUST change the snapshot (conservative: None whenever that cannot be told)."""
    k = e["k"]
    try:
        m = (s0["modules"][mi] if mi is not None else s0.get("module")) if k not in PROJECT_LEVEL else None
        if k == "ctl":
            cur = dict((n, v) for n, v in m["controllers"])
            return "controller" if e["n"] in cur and int(cur[e["n"]]) != int(e["v"]) else None
        if k == "sv_harmonic":
            i = e["i"]
            pl = m["payload"]
            if (pl["harmonic_freqs"][i], pl["harmonic_volumes"][i], pl["harmonic_widths"][i]) != (2000, 100, 9):
                return "harmonic"
            return None
        if k in ("elem", "ip_elem") and isinstance(e.get("v"), int):
            return "array-element" if m["payload"][e["p"]][e["i"]] != e["v"] else None
        if k == "smp_field" and e["n"] in ("volume", "finetune", "panning", "relative_note", "loop_start", "loop_len", "start_pos", "rate"):
            return "sample-field" if m["payload"]["samples"][e["i"]][e["n"]] != e["v"] else None
        if k == "map1":
            return "note-map" if m["payload"]["note_samples"][e["i"]] != e["v"] else None
        if k == "pfield" and e["n"] in s0 and not isinstance(e["v"], list):
            return "project-field" if s0[e["n"]] != e["v"] else None
        if k == "cell":
            return "note-cell" if s0["patterns"][e["p"]]["cells"][e["l"]][e["t"]] != list(e["c"]) else None
    except Exception:
        return None
    return None


def sources(ctx):
    out = [{"fixture": os.path.relpath(f, treeenv.FIXTURES)} for f in treeenv.fixture_files()]
    for k in deviate.type_keys():
        out.append({"type": k, "ctx": "synth"})
        if ctx.thorough or k in ("MetaModule", "Sampler", "MultiCtl", "Generator", "Amplifier"):
            out.append({"type": k, "ctx": "project"})
    out.append({"older_sampler_record": 0x184, "ctx": "synth"})
    from checks import c15, c16

    class _Q:
        thorough = False
        seed = 0
    for which, mod in (("c15", c15), ("c16", c16)):
        cases = mod.object_cases(_Q)
        seen = set()
        for c in cases:
            lab = c["label"]
            if lab in seen and not ctx.thorough:
                continue
            seen.add(lab)
            out.append({"objects": which, "case": c, "ctx": "synth"})
    return out


def run_case(case):
    data = source_bytes(case["src"])
    return check_edit(case["src"], data, case["module"], case["edit"], case.get("presave", False), case.get("pre"))[1]


def _task(t):
    src, seed, mi_sel, lo, hi = t
    r = C.new_result()
    data = source_bytes(src)
    obj = C.load_bytes(data)
    work = []
    if mi_sel == "pairs":
        mi, mod = modules_of(obj)[0]
        firsts = payload_edits(mod, seed, first_only=True)
        alls = payload_edits(mod, seed)
        for e0 in firsts[lo:hi]:
            for e in alls:
                st, vs = check_edit(src, data, mi, e, pre=e0)
                r["evals"] += 1
                C.count(r, "pair-" + st.split(":")[0])
                if len(r["violations"]) < 30:
                    r["violations"] += vs
        if firsts[lo:hi]:
            r["sample"] = {"src": src, "module": mi, "edit": alls[-1], "pre": firsts[lo:hi][-1]}
        return r
    if mi_sel == "project":
        work = [(None, e) for e in project_edits(obj)]
    else:
        for mi, mod in modules_of(obj):
            if mi == mi_sel:
                work = [(mi, e) for e in edits_for_module(mod, seed)]
    for mi, e in work[lo:hi]:
        st, vs = check_edit(src, data, mi, e)
        if st == "ok" and e["k"] in PRESAVE_KINDS:
            st2, vs2 = check_edit(src, data, mi, e, presave=True)
            vs = vs + vs2
            r["evals"] += 1
            C.count(r, "presave")
        r["evals"] += 1
        C.count(r, st.split(":")[0])
        r["digests"].add(C.h8(repr((src.get("fixture") or src.get("type") or src.get("older_sampler_record") or src["case"]["label"], mi, e)).encode()))
        if len(r["violations"]) < 30:
            r["violations"] += vs
    if work[lo:hi]:
        r["sample"] = {"src": src if "case" not in src else {"objects": src["objects"], "label": src["case"]["label"]},
                       "module": work[lo:hi][-1][0], "edit": work[lo:hi][-1][1]}
    return r


def run(ctx):
    treeenv.setup()
    from rv.project import Project

    tasks = []
    nsrc = 0
    for src in sources(ctx):
        try:
            obj = C.load_bytes(source_bytes(src))
        except Exception as e:
            # every source is a fixture of the repository or a well-formed file built here; all of them load on the
            # unchanged tree, so a file that cannot even be opened for editing is reported, not skipped
            ctx.add([C.viol("source-file-not-loadable", {"src": src.get("fixture") or src.get("type") or str(sorted(src))[:60],
                                                         "exc": type(e).__name__}, {"error": repr(e)[:200]}, None)])
            continue
        nsrc += 1
        if isinstance(obj, Project):
            tasks.append((src, ctx.seed, "project", 0, None))
        for mi, mod in modules_of(obj):
            n = len(edits_for_module(mod, ctx.seed))
            for lo in range(0, n, 80):
                tasks.append((src, ctx.seed, mi, lo, min(n, lo + 80)))
        is_mm_file = "fixture" in src and not isinstance(obj, Project) and getattr(obj.module, "mtype", "") == "MetaModule"
        if (src.get("ctx") == "synth" and "type" in src) or is_mm_file:
            # ordered PAIRS of payload edits on one module (k = 2 within the type-specific payload)
            nf = len(payload_edits(modules_of(obj)[0][1], ctx.seed, first_only=True))
            for lo in range(0, nf, 4):
                tasks.append((src, ctx.seed, "pairs", lo, min(nf, lo + 4)))
    from rvmc.runner import rotate

    agg = C.Agg()
    for r in ctx.pmap(_task, rotate(tasks, ctx.seed)):
        agg.merge(r)
    ctx.add(agg.violations)
    return {
        "evaluations": agg.evals,
        "distinct_nontrivial": agg.counters.get("ok", 0),
        "rule": "every (loaded file, module, catalogue edit) triple; non-trivial = the edit changed the object's snapshot "
                "(edits equal to the loaded value or rejected by the API are counted separately)",
        "exhaustive": True,
        "sources": nsrc, "edits_repeated_after_a_save": agg.counters.get("presave", 0), "edits_without_effect": agg.counters.get("no-change", 0),
        "edits_rejected_by_api": agg.counters.get("rejected", 0),
        "ordered_pairs_of_payload_edits": agg.counters.get("pair-ok", 0) + agg.counters.get("pair-no-change", 0),
        "samples": agg.samples,
    }
