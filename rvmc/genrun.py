"""Runs genrv's PythonGenerator from the tree under test into a scratch directory and
returns {filename: text} of the generated base classes (used by C13 and when repairing
generator defects)."""
import logging
import os
import shutil
import sys
import tempfile

from . import treeenv


def generate():
    treeenv.setup()
    import genrv
    from genrv.tools.generate import enumname
    from jinja2 import Environment, FileSystemLoader, PrefixLoader
    from pathlib import Path
    from stringcase import camelcase, pascalcase

    assert os.path.realpath(genrv.__file__).startswith(treeenv.SRC), genrv.__file__
    from genrv.codegen.python.gen import PythonGenerator

    genrv_path = Path(genrv.__file__).parent
    loader_map = {n: FileSystemLoader(genrv_path / "codegen" / n) for n in ("python", "ts")}
    env = Environment(loader=PrefixLoader(loader_map))
    env.filters.update(camelcase=camelcase, enumname=enumname, hex=hex, pascalcase=pascalcase, repr=repr)
    scratch = tempfile.mkdtemp(prefix="rvgen-")
    try:
        logging.disable(logging.CRITICAL)
        gen = PythonGenerator(spec_base=os.path.join(treeenv.REPO, "specs"), dest_base=scratch)
        import contextlib
        import io

        with contextlib.redirect_stdout(io.StringIO()), contextlib.redirect_stderr(io.StringIO()):
            gen.run(env)
        out = {}
        d = os.path.join(scratch, "modules", "base")
        for f in sorted(os.listdir(d)):
            with open(os.path.join(d, f)) as fh:
                out[f] = fh.read()
        return out
    finally:
        shutil.rmtree(scratch, ignore_errors=True)


if __name__ == "__main__":
    files = generate()
    base = os.path.join(treeenv.SRC, "rv", "modules", "base")
    changed = []
    for f, text in files.items():
        p = os.path.join(base, f)
        cur = open(p).read() if os.path.exists(p) else None
        if cur != text:
            changed.append(f)
            if "--write" in sys.argv:
                open(p, "w").write(text)
    print("generated", len(files), "changed:", changed)
