"""C08 — the connection graph and slot order persist across save/load.

Every link state reached by the C07 search (same driver and reference model, without the
foreign-module ops) is saved and loaded: all four link tables must come back exactly (up to
trailing freed slots).  Then, on the saved bytes, EVERY subset of the modules that carry the
optional slot chunk (SLnK) gets it removed, and every subset of the modules that lack it gets
it added: after loading, the mutual-consistency invariants I1-I4 must hold and the directed
edge set must be exactly the saved one (slot ORDER is only demanded when the file carries it
for every linked module).
"""
import itertools
from struct import pack

from checks import c07
from checks import common as C
from rvmc import explorer, treeenv
from rvref import codec

PROPERTY = "C08"
LEVEL = "model_checking"
ASSUMPTIONS = [
    "states are those of the C07 driver (4 modules, depth as reported); deeper C07 states are not round-tripped",
    "trailing freed (-1) slots are unobservable (property text)",
    "chunk-level edits of the written file use rvref.codec.parse_chunks/build_chunks",
]


def strip(l):
    l = list(l)
    while l and l[-1] == -1:
        l.pop()
    return l


def tables(p):
    out = [None if m is None else [strip(m.in_links), strip(m.in_link_slots), strip(m.out_links), strip(m.out_link_slots)]
           for m in p.modules]
    while out and out[-1] is None:          # trailing empty module positions are unobservable (N1)
        out.pop()
    return out


def module_sections(chunks):
    """[(start, end)] index ranges of module slots in a flat chunk list (end = index of SEND)."""
    out = []
    start = None
    for i, (cid, _d) in enumerate(chunks):
        if cid == b"SFFF" and start is None:
            start = i
        elif cid == b"SEND":
            out.append((start if start is not None else i, i))
            start = None
    return out


def persistence_checks(p):
    vs = []
    n = 0
    t0 = tables(p)
    e0 = c07.edge_sets(p)[0]
    b = C.save(p)
    try:
        p2 = C.load_bytes(b)
    except Exception as e:
        return 1, [C.viol("load-raises", {"variant": "as-written", "exc": type(e).__name__}, {"error": repr(e)})]
    n += 1
    t2 = tables(p2)
    if t2 != t0:
        vs.append(C.viol("tables-not-preserved", {"variant": "as-written"}, {"before": t0, "after": t2}))
    vs += [dict(v, key=dict(v["key"], variant="as-written")) for v in c07.link_invariants(p2)]
    chunks = codec.parse_chunks(b)
    secs = module_sections(chunks)
    have = []   # (module index, chunk index of SLnK)
    lack = []   # (module index, chunk index of SLNK) non-empty SLNK without SLnK
    for mi, (s, e) in enumerate(secs):
        ids = [chunks[i][0] for i in range(s, e)]
        if b"SLnK" in ids:
            have.append((mi, s + ids.index(b"SLnK")))
        elif b"SLNK" in ids and len(chunks[s + ids.index(b"SLNK")][1]) > 0:
            lack.append((mi, s + ids.index(b"SLNK")))
    variants = 0
    for r in range(0, len(have) + 1):
        for drop in itertools.combinations(have, r):
            for r2 in range(0, len(lack) + 1):
                for add in itertools.combinations(lack, r2):
                    if not drop and not add:
                        continue
                    variants += 1
                    dropset = {ci for _mi, ci in drop}
                    addmap = {ci: mi for mi, ci in add}
                    new = []
                    for i, ch in enumerate(chunks):
                        if i in dropset:
                            continue
                        new.append(ch)
                        if i in addmap:
                            m = p.modules[addmap[i]]
                            nlinks = len(ch[1]) // 4
                            slots = list(m.in_link_slots)[:nlinks]
                            new.append((b"SLnK", pack("<" + "i" * len(slots), *slots)))
                    nb = codec.build_chunks(new)
                    label = f"drop{len(drop)}-add{len(add)}"
                    try:
                        p3 = C.load_bytes(nb)
                    except Exception as e:
                        vs.append(C.viol("load-raises", {"variant": label, "exc": type(e).__name__},
                                         {"error": repr(e), "dropped_modules": [mi for mi, _ in drop],
                                          "added_modules": [mi for mi, _ in add]}))
                        continue
                    n += 1
                    inv = c07.link_invariants(p3)
                    vs += [dict(v, key=dict(v["key"], variant=label),
                                detail=dict(v["detail"], dropped=[mi for mi, _ in drop], added=[mi for mi, _ in add]))
                           for v in inv[:2]]
                    e_in, e_out = c07.edge_sets(p3)
                    if e_in != e0 or (not inv and e_out != e0):
                        vs.append(C.viol("edge-set-not-preserved", {"variant": label},
                                         {"saved": sorted(e0), "loaded_in": sorted(e_in), "loaded_out": sorted(e_out),
                                          "dropped": [mi for mi, _ in drop], "added": [mi for mi, _ in add]}))
                    if have and len(drop) == len(have) and not add and not inv:
                        n2, vs2 = edited_after_load(nb, sorted(e_in))
                        n += n2
                        vs += vs2
                    if not drop and len(add) == len(lack) and tables(p3) != t0:
                        vs.append(C.viol("tables-not-preserved", {"variant": "slots-added-everywhere"},
                                         {"before": t0, "after": tables(p3)}))
    return n, vs


def edited_after_load(nb, edges):
    """The project is loaded from the file WITHOUT slot chunks (the way SunVox writes it), then ONE link is removed, and
    the result saved and loaded: tables and edge set as they were after the edit."""
    vs = []
    n = 0
    for (a, b_) in edges:
        p = C.load_bytes(nb)
        try:
            p.modules[a] >> ~p.modules[b_]
        except Exception as e:
            vs.append(C.viol("edit-after-load-raises", {"exc": type(e).__name__}, {"error": repr(e), "edge": [a, b_]}))
            continue
        t1 = tables(p)
        e1 = c07.edge_sets(p)[0]
        try:
            q = C.load_bytes(C.save(p))
        except Exception as e:
            vs.append(C.viol("load-raises", {"variant": "loaded-without-slots-then-edited", "exc": type(e).__name__}, {"error": repr(e)}))
            continue
        n += 1
        if tables(q) != t1 or c07.edge_sets(q)[0] != e1:
            vs.append(C.viol("tables-not-preserved", {"variant": "loaded-without-slots-then-edited"},
                             {"before": t1, "after": tables(q), "removed": [a, b_]}))
        if len(vs) >= 2:
            break
    return n, vs


class PersistSystem(c07.LinkSystem):
    def state_check(self, L):
        _n, vs = persistence_checks(L.p)
        return vs[:4]


def fan_in_cases():
    """A module fed by FOUR sources (plus one extra link of the last source), with every subset of the four links freed
    again: several freed slots in the middle of one table, next to tables of other modules that carry slot chunks."""
    import rv.api as rv

    vs, n = [], 0
    for pre in (False, True):
        for post in (False, True):
            for mask in range(16):
                n += 1
                p = rv.Project()
                a, b, c, d, mix, side = [p.new_module(rv.m.Amplifier) for _ in range(6)]
                if pre:
                    p.connect(d, side)
                p.connect([a, b, c, d], mix)
                p.connect(mix, p.output)
                for i, src in enumerate((a, b, c, d)):
                    if mask >> i & 1:
                        p.connect(src, ~mix)
                if post:
                    p.connect(side, mix)
                    p.connect(a, side)
                _n, v = persistence_checks(p)
                for x in v[:3]:
                    x["case"] = {"fan_in": [pre, post, mask]}
                    x["key"] = dict(x["key"], layout="fan-in")
                vs += v[:3]
    return n, vs[:8]


def run_case(case):
    if "fan_in" in case:
        return [v for v in fan_in_cases()[1] if v["case"] == case]
    hist = case["history"]
    sysm = PersistSystem(hist, case.get("holes", (0, 0, 0)))
    L = sysm.fresh()
    for op in hist:
        sysm.apply(L, op)
    vs = persistence_checks(L.p)[1]
    for v in vs:
        v["case"] = case
    return vs


def run(ctx):
    treeenv.setup()
    from rvmc.runner import rotate

    A1 = c07.alphabet_A1()
    full = A1 + c07.alphabet_A2() + c07.alphabet_A4()
    d1 = 5 if ctx.thorough else 4
    r1 = explorer.bfs(ctx, PersistSystem(A1), d1, op_indices=rotate(range(len(A1)), ctx.seed), chunk=128,
                      verify_chunk=64)
    ctx.add(r1.violations)
    r2 = explorer.bfs(ctx, PersistSystem(full), 2 if ctx.thorough else 1, op_indices=rotate(range(len(full)), ctx.seed), chunk=4,
                      verify_chunk=64)
    ctx.add(r2.violations)
    # module numbers with gaps (one, two and three ADJACENT empty slots in front of linked modules)
    r3s = []
    for holes in c07.HOLE_LAYOUTS:
        r3 = explorer.bfs(ctx, PersistSystem(A1, holes), 4 if ctx.thorough else 3,
                          op_indices=rotate(range(len(A1)), ctx.seed), chunk=64, verify_chunk=64)
        ctx.add(r3.violations)
        r3s.append(r3)
    n_fan, v_fan = fan_in_cases()
    ctx.add(v_fan)
    # how many file variants one state produces (measured on a sample state for the evidence)
    sysm = PersistSystem(A1)
    L = sysm.fresh()
    for op in ({"op": "connect", "f": 1, "t": 2}, {"op": "connect", "f": 3, "t": 2}, {"op": "connect", "f": 2, "t": 0},
               {"op": "connect", "f": 1, "t": 0}, {"op": "connect", "f": _n(1), "t": 2}):
        sysm.apply(L, op)
    nvar, _ = persistence_checks(L.p)
    return {
        "states": r1.states + r2.states + sum(r.states for r in r3s),
        "transitions": r1.transitions + r2.transitions + sum(r.transitions for r in r3s),
        "traces_validated_against_impl": r1.replay_verified + r2.replay_verified + sum(r.replay_verified for r in r3s),
        "exhaustive": not (r1.capped or r2.capped or any(r.capped for r in r3s)),
        "layouts_with_empty_slots": [{"holes": list(h), "depth_completed": r.depth_completed, "states": r.states}
                                     for h, r in zip(c07.HOLE_LAYOUTS, r3s)],
        "A1": {"depth_completed": r1.depth_completed, "states": r1.states, "states_round_tripped": r1.replay_verified + 1},
        "full_alphabet": {"ops": len(full), "depth_completed": r2.depth_completed, "states": r2.states,
                          "states_round_tripped": r2.replay_verified + 1},
        "file_variants_of_sample_state": nvar, "fan_in_layouts": n_fan,
        "samples": [{"history": [A1[1], A1[6], A1[20]]},
                    {"history": [{"op": "connect", "f": 1, "t": 2}, {"op": "connect", "f": 3, "t": 2},
                                 {"op": "connect", "f": ["~", 1], "t": 2}]}],
        "rule": "every reached link state: save/load as written + every subset of SLnK chunks removed/added",
    }


def _n(i):
    return ["~", i]
