"""C06 — edits made to a loaded object are what gets saved.

E-DEV over (file, attribute, new value): every fixture and a set of generated files (each module
type's default, the MetaModule / Sampler objects of C15/C16) is LOADED; then for every module in
it every entry of the attribute catalogue (every controller x alphabet, every option value, common
fields, MIDI bindings, payload elements incl. in-place forms, sampler samples/envelopes/map,
MetaModule count/labels/mappings/inner project), every project field and note cells: set the
new value on the loaded object, save, load.
Oracle: (1) snapshot(load(save(obj))) == snapshot(obj) for the EDITED object — this is what exposes
any replay of stale bytes; (2) the edit is visible in the object's own snapshot; (3) the edit
changed nothing outside the edited module / field (declared couplings N14 excepted).
"""
import os

from checks import c01, c17, common as C
from rvmc import deviate, snapshot as S, spec, treeenv

PROPERTY = "C06"
LEVEL = "exploration"
ASSUMPTIONS = [
    "one edit per loaded object (k = 1); alphabets as in C01/C02; values the loaded object already holds are skipped",
    "N14 couplings: MultiCtl value -> linked targets, MetaModule user controller <-> mapped embedded controller, exclusive "
    "options, unit controller -> range of its dependants; nothing else is excused",
]

_BY_TYPE = None


def key_of_type(type_string):
    global _BY_TYPE
    if _BY_TYPE is None:
        _BY_TYPE = {t.type: k for k, t in spec.types().items()}
    return _BY_TYPE.get(type_string)


def source_bytes(src):
    if "fixture" in src:
        return open(os.path.join(treeenv.FIXTURES, src["fixture"]), "rb").read()
    import rv.api as rv

    if "type" in src:
        mod = deviate.new_module(src["type"])
        if src.get("ctx") == "project":
            p = rv.Project()
            p.attach_module(mod)
            p.attach_pattern(rv.Pattern(tracks=2, lines=2))
            return C.save(p)
        return C.save(rv.Synth(mod))
    from checks import c15, c16

    mod = c15 if src["objects"] == "c15" else c16
    return C.save(mod.build_object(dict(src["case"], ctx=src.get("ctx", "synth"))))


def modules_of(obj):
    from rv.project import Project

    if isinstance(obj, Project):
        return [(i, m) for i, m in enumerate(obj.modules) if m is not None]
    return [(None, obj.module)]


def edits_for_module(mod, seed):
    tkey = key_of_type(mod.mtype)
    if tkey is None:
        return []
    if tkey == "Output":
        return [{"k": "attr", "n": n, "v": v} for n, (_a, vals) in deviate.COMMON_ATTRS.items() if n != "name" for v in vals[:2]] + \
               [{"k": "flag", "n": "mute"}, {"k": "ip_links", "which": "in_links"}][:1]
    devs = deviate.module_devs(tkey, seed, spikes="few", opt8="few")
    return devs + [o for o in c17.inplace_ops(tkey) if o["k"] not in ("ip_links", "ip_ctlvalues", "ip_optvalues", "mm_uvalue")]


def project_edits(obj):
    out = []
    for n, vals in c01.PROJECT_FIELDS.items():
        for v in (vals[1], vals[-1]):
            out.append({"k": "pfield", "n": n, "v": v})
    out.append({"k": "pfield", "n": "name", "v": "edited näme"})
    for pi, pat in enumerate(obj.patterns):
        if pat is None:
            continue
        if hasattr(pat, "data"):
            out.append({"k": "cell", "p": pi, "l": 0, "t": 0, "c": [61, 129, 2, 0x0107, 0x8001]})
            out.append({"k": "cell", "p": pi, "l": pat.lines - 1, "t": pat.tracks - 1, "c": [128, 0, 0, 0, 0]})
            out.append({"k": "pattr", "p": pi, "n": "name", "v": "pn"})
            out.append({"k": "pattr", "p": pi, "n": "x", "v": -77})
            out.append({"k": "pattr", "p": pi, "n": "flags_PFFF", "v": 0x08})
        else:
            out.append({"k": "pattr", "p": pi, "n": "x", "v": 12345})
            out.append({"k": "pattr", "p": pi, "n": "source", "v": 0})
    return out


def apply_edit(obj, mi, e):
    import rv.api as rv

    k = e["k"]
    if k == "pfield":
        v = e["v"]
        setattr(obj, e["n"], tuple(v) if isinstance(v, list) else v)
    elif k == "cell":
        n = obj.patterns[e["p"]].data[e["l"]][e["t"]]
        c = e["c"]
        n.note, n.vel, n.module, n.ctl, n.val = rv.NOTECMD(c[0]), c[1], c[2], c[3], c[4]
    elif k == "pattr":
        setattr(obj.patterns[e["p"]], e["n"], e["v"])
    else:
        mod = obj.modules[mi] if mi is not None else obj.module
        c17.apply_inplace(mod, e)


def module_path(mi):
    return "module" if mi is None else f"modules[{mi}]"


def check_edit(src, data, mi, e):
    """Returns (status, violations)."""
    case = {"src": src, "module": mi, "edit": e}
    ek = e["k"] + ":" + str(e.get("n") or e.get("p") or e.get("e") or "")
    obj = C.load_bytes(data)
    s0 = S.snapshot(obj)
    mtype = (obj.modules[mi].mtype if mi is not None else getattr(getattr(obj, "module", None), "mtype", None)) \
        if e["k"] not in ("pfield", "cell", "pattr") else "Project"
    key = {"type": mtype, "edit": ek}
    try:
        apply_edit(obj, mi, e)
    except Exception as ex:
        return "rejected:" + type(ex).__name__, []
    s1 = S.snapshot(obj)
    d01 = S.diff(s0, s1, limit=60)
    if not d01:
        return "no-change", []
    vs = []
    # (3) locality
    if e["k"] in ("pfield", "cell", "pattr"):
        outside = [x for x in d01 if x[0].startswith("modules[") or x[0].startswith("module.")]
    else:
        pref = module_path(mi)
        outside = [x for x in d01 if not x[0].startswith(pref)]
        if mtype in ("MultiCtl",):
            outside = [x for x in outside if not x[0].startswith("modules[")]  # fan-out to linked targets (N14)
    if outside:
        vs.append(C.viol("edit-changes-other-state", dict(key, path=S.generic_path(outside[0][0])),
                         {"diff": S.diff_text(outside)}, case))
    # (1) what is saved is the edited object
    s1n = C.norm_project_for_compare(s1) if s1.get("kind") == "project" else dict(s1, module=C.norm_module_for_compare(s1["module"]))
    try:
        b = C.save(obj)
        o2 = C.load_bytes(b)
    except Exception as ex:
        vs.append(C.viol("edited-object-not-saveable-or-loadable", dict(key, exc=type(ex).__name__), {"error": repr(ex)[:200]}, case))
        return "ok", vs
    d = S.diff(s1n, S.snapshot(o2))
    if d:
        # is the saved value the ORIGINAL one (stale replay) or something else?
        stale = any(not S.diff(a, b) for a, b in [(s0, S.snapshot(o2))])
        vs.append(C.viol("edit-not-saved", dict(key, path=S.generic_path(d[0][0]), stale_replay=bool(stale)),
                         {"diff": S.diff_text(d)}, case))
    return "ok", vs


def sources(ctx):
    out = [{"fixture": os.path.relpath(f, treeenv.FIXTURES)} for f in treeenv.fixture_files()]
    for k in deviate.type_keys():
        out.append({"type": k, "ctx": "synth"})
        if ctx.thorough or k in ("MetaModule", "Sampler", "MultiCtl", "Generator", "Amplifier"):
            out.append({"type": k, "ctx": "project"})
    from checks import c15, c16

    class _Q:
        thorough = False
        seed = 0
    for which, mod in (("c15", c15), ("c16", c16)):
        cases = mod.object_cases(_Q)
        seen = set()
        for c in cases:
            lab = c["label"]
            if lab in seen and not ctx.thorough:
                continue
            seen.add(lab)
            out.append({"objects": which, "case": c, "ctx": "synth"})
    return out


def run_case(case):
    data = source_bytes(case["src"])
    return check_edit(case["src"], data, case["module"], case["edit"])[1]


def _task(t):
    src, seed, mi_sel, lo, hi = t
    r = C.new_result()
    data = source_bytes(src)
    obj = C.load_bytes(data)
    work = []
    if mi_sel == "project":
        work = [(None, e) for e in project_edits(obj)]
    else:
        for mi, mod in modules_of(obj):
            if mi == mi_sel:
                work = [(mi, e) for e in edits_for_module(mod, seed)]
    for mi, e in work[lo:hi]:
        st, vs = check_edit(src, data, mi, e)
        r["evals"] += 1
        C.count(r, st.split(":")[0])
        r["digests"].add(C.h8(repr((src.get("fixture") or src.get("type") or src["case"]["label"], mi, e)).encode()))
        if len(r["violations"]) < 30:
            r["violations"] += vs
    if work[lo:hi]:
        r["sample"] = {"src": src if "case" not in src else {"objects": src["objects"], "label": src["case"]["label"]},
                       "module": work[lo:hi][-1][0], "edit": work[lo:hi][-1][1]}
    return r


def run(ctx):
    treeenv.setup()
    from rv.project import Project

    tasks = []
    nsrc = 0
    for src in sources(ctx):
        try:
            obj = C.load_bytes(source_bytes(src))
        except Exception:
            continue
        nsrc += 1
        if isinstance(obj, Project):
            tasks.append((src, ctx.seed, "project", 0, None))
        for mi, mod in modules_of(obj):
            n = len(edits_for_module(mod, ctx.seed))
            for lo in range(0, n, 80):
                tasks.append((src, ctx.seed, mi, lo, min(n, lo + 80)))
    from rvmc.runner import rotate

    agg = C.Agg()
    for r in ctx.pmap(_task, rotate(tasks, ctx.seed)):
        agg.merge(r)
    ctx.add(agg.violations)
    return {
        "evaluations": agg.evals,
        "distinct_nontrivial": agg.counters.get("ok", 0),
        "rule": "every (loaded file, module, catalogue edit) triple; non-trivial = the edit changed the object's snapshot "
                "(edits equal to the loaded value or rejected by the API are counted separately)",
        "exhaustive": True,
        "sources": nsrc, "edits_without_effect": agg.counters.get("no-change", 0),
        "edits_rejected_by_api": agg.counters.get("rejected", 0),
        "samples": agg.samples,
    }
