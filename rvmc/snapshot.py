"""Observation function: rv object -> plain nested dict of PUBLIC state (shape: rvref/SHAPE.md).

Every oracle that says "observably equal" uses this one function, and `diff` turns two
snapshots into a list of paths.  Soundness rules N1-N17 of DESIGN §4 are applied here or in
`diff` (normalisation), never ad hoc in a check.
"""
from enum import Enum

U32 = 0xFFFFFFFF


def _i(v):
    if isinstance(v, Enum):
        return int(v.value)
    if isinstance(v, bool):
        return int(v)
    if v is None:
        return 0
    return v


def _strip(lst):
    lst = list(lst)
    while lst and lst[-1] == -1:
        lst.pop()
    return lst


def pattern(p):
    from rv.pattern import PatternClone

    if p is None:
        return None
    if isinstance(p, PatternClone):
        return {"kind": "clone", "source": p.source, "flags_PFFF": int(p.flags_PFFF), "x": p.x, "y": p.y}
    return {
        "kind": "pattern",
        "name": p.name,
        "tracks": p.tracks,
        "lines": p.lines,
        "y_size": p.y_size,
        "flags_PFLG": int(p.flags_PFLG),
        "icon": bytes(p.icon),
        "fg_color": list(p.fg_color),
        "bg_color": list(p.bg_color),
        "flags_PFFF": int(p.flags_PFFF),
        "x": p.x,
        "y": p.y,
        "cells": [[[int(n.note), int(n.vel), int(n.module), int(n.ctl), int(n.val)] for n in line]
                  for line in p.data],
    }


def envelope(e):
    return {
        "enable": bool(e.enable), "sustain": bool(e.sustain), "loop": bool(e.loop),
        "ctl_index": e.ctl_index, "gain_pct": e.gain_pct, "velocity": e.velocity,
        "sustain_point": e.sustain_point, "loop_start_point": e.loop_start_point,
        "loop_end_point": e.loop_end_point,
        "points": [[x, y] for x, y in e.points],
    }


def payload(mod, in_project):
    t = mod.mtype
    if t in ("Analog generator", "Generator"):
        return {"drawn_waveform": [int(s) for s in mod.drawn_waveform.samples]}
    if t == "FMX":
        return {"custom_waveform": [float(v) for v in mod.custom_waveform.values]}
    if t == "MultiSynth":
        return {"nv_curve": [int(v) for v in mod.nv_curve.values],
                "vv_curve": [int(v) for v in mod.vv_curve.values],
                "np_curve": [int(v) for v in mod.np_curve.values]}
    if t == "SpectraVoice":
        return {"harmonic_freqs": [int(v) for v in mod.harmonic_freqs.values],
                "harmonic_volumes": [int(v) for v in mod.harmonic_volumes.values],
                "harmonic_widths": [int(v) for v in mod.harmonic_widths.values],
                "harmonic_types": [_i(v) for v in mod.harmonic_types.values]}
    if t == "WaveShaper":
        return {"curve": [int(v) for v in mod.curve.values]}
    if t == "MultiCtl":
        return {"mappings": [[m.min, m.max, m.controller, m.flags, m.future_use2, m.future_use3,
                              m.future_use4, m.future_use5] for m in mod.mappings.values],
                "curve": [int(v) for v in mod.curve.values]}
    if t == "Vorbis player":
        return {"data": bytes(mod.data or b"")}
    if t == "MetaModule":
        n = mod.user_defined_controllers
        return {"project": project(mod.project),
                "mappings": [[m.module, m.controller] for m in mod.mappings.values],
                "labels": {i: c.label for i, c in enumerate(mod.user_defined)
                           if i < n and c.label is not None}}
    if t == "Sampler":
        samples = {}
        for i, s in enumerate(mod.samples):
            if s is None:
                continue
            samples[i] = {
                "data": bytes(s.data), "format": _i(s.format), "stereo": _i(s.channels) == 8,
                "rate": s.rate, "loop_start": s.loop_start, "loop_len": s.loop_len,
                "volume": s.volume, "finetune": s.finetune, "loop_type": _i(s.loop_type),
                "loop_sustain": bool(s.loop_sustain), "panning": s.panning,
                "relative_note": s.relative_note, "name": bytes(s.name), "start_pos": s.start_pos,
            }
        envs = {"volume": envelope(mod.volume_envelope), "panning": envelope(mod.panning_envelope),
                "pitch": envelope(mod.pitch_envelope)}
        for k, e in enumerate(mod.effect_control_envelopes, 1):
            envs[f"effect{k}"] = envelope(e)
        return {
            "slot_count": len(mod.samples),      # rv-only: the public `samples` list keeps its 128 positions
            "samples": samples, "envelopes": envs,
            "note_samples": [int(v) for v in mod.note_samples.values()],
            "vibrato_type": _i(mod.vibrato_type), "vibrato_attack": mod.vibrato_attack,
            "vibrato_depth": mod.vibrato_depth, "vibrato_rate": mod.vibrato_rate,
            "volume_fadeout": mod.volume_fadeout,
            "editor_cursor": mod.editor_cursor, "editor_selected_size": mod.editor_selected_size,
            "effect": synth(mod.effect) if mod.effect is not None else None,
        }
    return {}


def module(mod, in_project=True):
    if mod is None:
        return None
    names = [n for n, c in mod.controllers.items() if c.attached(mod)]
    ctls = []
    for n in names:
        if mod.mtype == "MetaModule" and n.startswith("user_defined_"):
            ctls.append([n, mod.get_raw(n)])   # N13: compared by STORED value
        else:
            ctls.append([n, _i(getattr(mod, n))])
    cm = mod.controller_midi_maps
    d = {
        "type": mod.mtype,
        "name": mod.name,
        "flags": mod.flags,
        "finetune": mod.mod_finetune,
        "relative_note": mod.mod_relative_note,
        "x": mod.x, "y": mod.y,
        "layer": mod.layer & U32 if mod.layer is not None else None,
        # the COMMON module scale (SSCL); `mod_scale` where the library has it (a controller may be called `scale`)
        "scale": _i(getattr(mod, "mod_scale", None) if hasattr(mod, "mod_scale") else mod.scale),
        "visualization": int(mod.visualization),
        # the documented sub-fields of the visualisation word, read through their public accessors
        "vis_fields": {k: _i(getattr(mod.visualization, k)) for k in
                       ("level_mode", "orientation", "oscilloscope_mode", "oscilloscope_size", "bg_transparency",
                        "shadow_opacity")},
        "color": list(mod.color),
        "midi_in_always": bool(mod.midi_in_always),
        "midi_in_channel": mod.midi_in_channel,
        "midi_out_name": mod.midi_out_name or "",          # N3
        "midi_out_channel": mod.midi_out_channel & U32,     # N7
        "midi_out_bank": mod.midi_out_bank,
        "midi_out_program": mod.midi_out_program,
        "in_links": _strip(mod.in_links),                  # N2
        "in_link_slots": _strip(mod.in_link_slots),
        "out_links": _strip(mod.out_links),
        "out_link_slots": _strip(mod.out_link_slots),
        "controllers": ctls,
        "cmid": [[_i(cm[n].message_type), cm[n].channel, _i(cm[n].slope), cm[n].message_parameter]
                 for n in names] if n_attached(names) else [],
        "options": {k: _i(getattr(mod, k)) for k in mod.options},
        "chnk": int(mod.chnk) if mod.chnk else None,
        "payload": payload(mod, in_project),
    }
    if not in_project:                                      # N8
        for k in ("x", "y", "layer", "visualization", "vis_fields", "in_links", "in_link_slots", "out_links",
                  "out_link_slots"):
            d[k] = None
    return d


def n_attached(names):
    return len(names) > 0


def project(p):
    mods = [module(m) for m in p.modules]
    while mods and mods[-1] is None:                        # N1
        mods.pop()
    return {
        "kind": "project",
        "sunvox_version": list(p.sunvox_version),
        "based_on_version": list(p.based_on_version) if p.based_on_version is not None else None,
        "flags": p.flags,
        "receive_sync_midi": int(p.receive_sync_midi),
        "receive_sync_other": int(p.receive_sync_other),
        "initial_bpm": p.initial_bpm, "initial_tpl": p.initial_tpl,
        "time_grid": p.time_grid, "time_grid2": p.time_grid2,
        "global_volume": p.global_volume, "name": p.name,
        "modules_scale": p.modules_scale, "modules_zoom": p.modules_zoom,
        "modules_x_offset": p.modules_x_offset, "modules_y_offset": p.modules_y_offset,
        "modules_layer_mask": p.modules_layer_mask, "modules_current_layer": p.modules_current_layer,
        "timeline_position": p.timeline_position, "restart_position": p.restart_position,
        "selected_module": p.selected_module,
        "selected_generator": p.selected_generator & U32,   # N7
        "current_pattern": p.current_pattern, "current_track": p.current_track,
        "current_line": p.current_line,
        "patterns": [pattern(x) for x in p.patterns],
        "modules": mods,
    }


def synth(s):
    return {"kind": "synth", "version": list(s.sunsynth_version),
            "module": module(s.module, in_project=False) if s.module is not None else None}


def snapshot(obj):
    from rv.modules.module import Module
    from rv.pattern import Pattern, PatternClone
    from rv.project import Project
    from rv.synth import Synth

    if isinstance(obj, Project):
        return project(obj)
    if isinstance(obj, Synth):
        return synth(obj)
    if isinstance(obj, Module):
        return module(obj, in_project=obj.parent is not None)
    if isinstance(obj, (Pattern, PatternClone)) or obj is None:
        return pattern(obj)
    raise TypeError(type(obj))


# ------------------------------------------------------------------------- diff
IGNORED_KEYS = {"slot_count_decoder_side", "_present", "cvals_raw", "options_raw", "meta_size", "record_size", "signature",
                "max_version", "version"}


def diff(a, b, path="", out=None, limit=20, ignore=()):
    """List of (path, a, b) where the two snapshots differ.  Keys in IGNORED_KEYS (decoder-only
    bookkeeping) and in `ignore` (path suffixes) are skipped."""
    if out is None:
        out = []
    if len(out) >= limit:
        return out
    if isinstance(a, dict) and isinstance(b, dict):
        for k in sorted(set(a) | set(b), key=str):
            if k in IGNORED_KEYS:
                continue
            p = f"{path}.{k}" if path else str(k)
            if any(p.endswith(s) for s in ignore):
                continue
            if k not in a:
                out.append((p, "<absent>", b[k]))
            elif k not in b:
                out.append((p, a[k], "<absent>"))
            else:
                diff(a[k], b[k], p, out, limit, ignore)
    elif isinstance(a, (list, tuple)) and isinstance(b, (list, tuple)):
        if len(a) != len(b):
            out.append((path + ".len", len(a), len(b)))
        for i, (x, y) in enumerate(zip(a, b)):
            diff(x, y, f"{path}[{i}]", out, limit, ignore)
    else:
        if isinstance(a, float) or isinstance(b, float):
            import struct
            try:
                fa = struct.unpack("<f", struct.pack("<f", a))[0]
                fb = struct.unpack("<f", struct.pack("<f", b))[0]
                same = fa == fb or (fa != fa and fb != fb)
            except Exception:
                same = a == b
        else:
            same = a == b and type(a) is type(b) or (a == b and {type(a), type(b)} <= {int, bool})
        if not same:
            out.append((path, a, b))
    return out


def short(v, n=80):
    s = repr(v)
    return s if len(s) <= n else s[: n - 3] + "..."


def diff_text(d):
    return [f"{p}: {short(a)} -> {short(b)}" for p, a, b in d]


def generic_path(p):
    """Path with list indices and digits removed — a stable key for a class of differences."""
    import re
    return re.sub(r"\[\d+\]", "[]", p)
