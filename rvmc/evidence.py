"""evidence/<id>.json writer (schema: /root/.vp/EVIDENCE.schema.json)."""
import json
import os
import time

from . import treeenv
from .findings import _jsonable


def write(property_id, tier, seed, level, coverage, wall_s, violations, assumptions):
    cov = _jsonable(coverage)
    # structural self-check of the keys the claimed level needs
    if level == "model_checking":
        for k in ("states", "transitions", "traces_validated_against_impl", "samples"):
            assert k in cov, k
        assert cov["states"] >= 1 and cov["transitions"] >= 1 and len(cov["samples"]) >= 1
    else:
        for k in ("evaluations", "distinct_nontrivial", "rule", "samples"):
            assert k in cov, k
        assert len(cov["samples"]) >= 1
    doc = {
        "property_id": property_id,
        "tier": tier,
        "seed": int(seed),
        "level": level,
        "coverage": cov,
        "assumptions": list(assumptions),
        "wall_s": round(float(wall_s), 3),
        "violations": int(violations),
        "tree": treeenv.tree_commit(),
        "written_at": time.strftime("%Y-%m-%dT%H:%M:%SZ", time.gmtime()),
    }
    d = os.path.join(treeenv.OUT, "evidence")
    os.makedirs(d, exist_ok=True)
    tmp = os.path.join(d, f".{property_id}.json.tmp")
    with open(tmp, "w") as f:
        json.dump(doc, f, indent=1, sort_keys=True)
    os.replace(tmp, os.path.join(d, f"{property_id}.json"))
    return doc
