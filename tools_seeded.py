#!/venv/bin/python
"""Seeded-fault workflow.

  tools_seeded.py try  <property> <patch.diff> [demo.py]   apply patch in a scratch worktree, run the baseline
                                                           suite + demo + the property's quick check (2 seeds)
  tools_seeded.py keep <property> <name> <patch.diff> <demo.py> <notes.md>   same, then store under seeded/<name>/
  tools_seeded.py all                                      re-run every kept seeded fault against its check(s)

Scratch worktree: /tmp/rv-seed-wt (created from /repo HEAD, removed afterwards). Checks run with
RV_VERIF_REPO=<scratch> and RV_VERIF_OUT=<scratch>/.verif-out so evidence/replays of the real tree are untouched.
"""
import json
import os
import shutil
import subprocess
import sys

HERE = os.path.dirname(os.path.abspath(__file__))
WT = f"/tmp/rv-seed-wt-{os.getpid()}"


def sh(cmd, **kw):
    return subprocess.run(cmd, shell=True, capture_output=True, text=True, **kw)


def make_wt():
    drop_wt()
    r = sh(f"git -C /repo worktree add --detach {WT} HEAD")
    assert r.returncode == 0, r.stderr


def drop_wt():
    sh(f"git -C /repo worktree remove --force {WT}")
    shutil.rmtree(WT, ignore_errors=True)
    sh("git -C /repo worktree prune")


def run_suite():
    r = sh(f"cd {WT} && PYTHONPATH={WT}/src/python /venv/bin/python -m pytest -q -p no:cacheprovider --timeout=900 "
           f"--continue-on-collection-errors 2>&1 | tail -1")
    return r.stdout.strip()


def run_demo(demo):
    r = sh(f"cd {WT} && PYTHONPATH={WT}/src/python /venv/bin/python {demo}")
    return r.returncode, (r.stdout + r.stderr)[-300:]


def run_check(pid, seed, tier="quick"):
    env = dict(os.environ, RV_VERIF_REPO=WT, RV_VERIF_OUT=f"{WT}/.verif-out", VERIF_SEED=str(seed))
    r = subprocess.run([os.path.join(HERE, "check"), pid, "--tier", tier], capture_output=True, text=True, env=env)
    lines = [l for l in r.stdout.splitlines() if l.startswith("VIOLATION") or l.startswith("  subcheck")]
    return r.returncode, lines[:4], r.stdout.splitlines()[-1:] if r.stdout else [r.stderr[-300:]]


def try_patch(pids, patch, demo=None, tier="quick"):
    make_wt()
    res = {"patch": patch}
    try:
        clean_demo = run_demo(demo) if demo else None
        r = sh(f"git -C {WT} apply {patch}")
        res["apply"] = "ok"
        if r.returncode != 0:
            # the tree moved on since the patch was written (later fix: commits): try a 3-way merge
            r = sh(f"git -C {WT} apply -3 {patch}")
            if r.returncode != 0 or "with conflicts" in (r.stdout + r.stderr):
                res["apply"] = "FAILED: " + r.stderr[-300:]
                return res
            res["apply"] = "ok (3-way)"
        res["suite"] = run_suite()
        if demo:
            res["demo_clean_rc"] = clean_demo[0]
            rc, out = run_demo(demo)
            res["demo_patched_rc"] = rc
            res["demo_out"] = out[-200:]
        res["checks"] = {}
        for pid in pids:
            runs = []
            for seed in (0, 7):
                rc, lines, last = run_check(pid, seed, tier)
                runs.append({"seed": seed, "exit": rc, "first": lines[:2], "summary": last})
            res["checks"][pid] = runs
        return res
    finally:
        drop_wt()


def main():
    cmd = sys.argv[1]
    if cmd == "try":
        pids = sys.argv[2].split(",")
        res = try_patch(pids, os.path.abspath(sys.argv[3]), os.path.abspath(sys.argv[4]) if len(sys.argv) > 4 else None)
        print(json.dumps(res, indent=1))
    elif cmd == "keep":
        pids, name, patch, demo, notes = sys.argv[2].split(","), sys.argv[3], *map(os.path.abspath, sys.argv[4:7])
        res = try_patch(pids, patch, demo)
        d = os.path.join(HERE, "seeded", name)
        os.makedirs(d, exist_ok=True)
        shutil.copy(patch, os.path.join(d, "patch.diff"))
        shutil.copy(demo, os.path.join(d, "demo.py"))
        meta = {
            "breaks_property": pids[0], "checked_with": pids,
            "needs_to_manifest": open(notes).read(),
            "ran": {
                "baseline_suite_with_patch": res.get("suite"),
                "demo_exit_clean_tree": res.get("demo_clean_rc"), "demo_exit_patched_tree": res.get("demo_patched_rc"),
                "checks": {p: [{"seed": r["seed"], "exit": r["exit"], "first_violation": r["first"][:2]} for r in rs]
                           for p, rs in res.get("checks", {}).items()},
            },
            "detected": any(r["exit"] == 1 and any("VIOLATION" in l for l in r["first"])
                            for rs in res.get("checks", {}).values() for r in rs),
            "origin": "independent sub-agent given only the property text and a scratch worktree",
        }
        json.dump(meta, open(os.path.join(d, "meta.json"), "w"), indent=1)
        print(json.dumps({k: meta[k] for k in ("breaks_property", "detected")}), res.get("suite"), res.get("demo_patched_rc"))
        for p, rs in res.get("checks", {}).items():
            for r in rs:
                print(" ", p, "seed", r["seed"], "exit", r["exit"], (r["first"] or r["summary"])[:2])
    elif cmd == "revert":
        # tools_seeded.py revert <property[,more]> <name> <patch.diff> <what>
        pids, name, patch, what = sys.argv[2].split(","), sys.argv[3], os.path.abspath(sys.argv[4]), sys.argv[5]
        res = try_patch(pids, patch, None)
        d = os.path.join(HERE, "seeded", name)
        os.makedirs(d, exist_ok=True)
        shutil.copy(patch, os.path.join(d, "patch.diff"))
        open(os.path.join(d, "demo.py"), "w").write("# regression seed: reverts a fix commit; the demonstration is the replay printed by the check\n")
        meta = {
            "breaks_property": pids[0], "checked_with": pids,
            "needs_to_manifest": what,
            "ran": {"apply": res.get("apply"), "baseline_suite_with_patch": res.get("suite"),
                    "checks": {p: [{"seed": r["seed"], "exit": r["exit"], "first_violation": r["first"][:2]} for r in rs]
                               for p, rs in res.get("checks", {}).items()}},
            "detected": any(r["exit"] == 1 and any("VIOLATION" in l for l in r["first"])
                            for rs in res.get("checks", {}).values() for r in rs),
            "origin": "reverse patch of a fix: commit in /repo (the original defect)",
        }
        json.dump(meta, open(os.path.join(d, "meta.json"), "w"), indent=1)
        print(name, res.get("apply"), res.get("suite"), "detected" if meta["detected"] else "MISSED")
    elif cmd == "all":
        tier = sys.argv[2] if len(sys.argv) > 2 else "quick"
        rows = []
        for name in sorted(os.listdir(os.path.join(HERE, "seeded"))):
            d = os.path.join(HERE, "seeded", name)
            if not os.path.exists(os.path.join(d, "meta.json")):
                continue
            meta = json.load(open(os.path.join(d, "meta.json")))
            res = try_patch(meta["checked_with"], os.path.join(d, "patch.diff"), os.path.join(d, "demo.py"), tier)
            det = {p: [r["exit"] for r in rs] for p, rs in res.get("checks", {}).items()}
            rows.append((name, res.get("apply"), res.get("suite"), res.get("demo_patched_rc"), det))
            print(name, res.get("apply"), res.get("suite"), "demo", res.get("demo_patched_rc"), det, flush=True)
    elif cmd == "regress":
        # fast regression: every kept fault, the check of the property it breaks (falling back to the other listed checks
        # only if that one is silent), seed 0, quick tier; no suite / demo re-run.  Prints MISSED lines; exit 1 if any.
        only = sys.argv[2] if len(sys.argv) > 2 else ""
        missed = []
        n = 0
        for name in sorted(os.listdir(os.path.join(HERE, "seeded"))):
            d = os.path.join(HERE, "seeded", name)
            if not os.path.exists(os.path.join(d, "meta.json")) or not name.startswith(only):
                continue
            meta = json.load(open(os.path.join(d, "meta.json")))
            make_wt()
            try:
                r = sh(f"git -C {WT} apply {os.path.join(d, 'patch.diff')}")
                if r.returncode != 0:
                    r = sh(f"git -C {WT} apply -3 {os.path.join(d, 'patch.diff')}")
                    if r.returncode != 0 or "with conflicts" in (r.stdout + r.stderr):
                        print(name, "APPLY-FAILED", flush=True)
                        missed.append(name)
                        continue
                hit = None
                for pid in meta["checked_with"]:
                    rc, lines, last = run_check(pid, 0)
                    if rc == 1 and any("VIOLATION" in l for l in lines):
                        hit = pid
                        break
                n += 1
                print(name, "detected by " + hit if hit else "MISSED", flush=True)
                if not hit:
                    missed.append(name)
            finally:
                drop_wt()
        print(f"{n} faults, {len(missed)} missed: {missed}")
        sys.exit(1 if missed else 0)
    else:
        print(__doc__)


if __name__ == "__main__":
    main()
