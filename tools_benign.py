#!/venv/bin/python
"""Behaviour-preserving changes ("benign" patches): the checks must stay SILENT on them.

  tools_benign.py try  <name> <patch.diff> <demo.py> <notes.md> <check[,check...]|all>
        apply the patch in a scratch worktree, run the repository's suite and the author's demo (must pass), then the
        listed quick checks (seed 0) against the patched tree; stores benign/<name>/ (patch.diff, demo.py, notes.md,
        meta.json with the exit code and first lines of every check).
  tools_benign.py regress [prefix]     re-run every stored benign patch against the checks recorded for it
  tools_benign.py report               benign/RESULTS.md

An alarm on such a patch is a defect of the CHECK (it depends on something the property does not state) unless the patch
turns out not to be benign after all (then the replay shows the property violation and the patch is dropped or moved to
seeded/).  Scratch worktrees live under /tmp and are removed after each run.
"""
import json
import os
import shutil
import sys

import tools_seeded as T

HERE = os.path.dirname(os.path.abspath(__file__))
ALL = ["C%02d" % i for i in range(1, 21)]


def evaluate(patch, demo, checks):
    T.make_wt()
    res = {"checks": {}}
    try:
        r = T.sh(f"git -C {T.WT} apply {patch}")
        if r.returncode != 0:
            res["apply"] = "FAILED: " + r.stderr[-200:]
            return res
        res["apply"] = "ok"
        res["suite"] = T.run_suite()
        if demo and os.path.exists(demo):
            rc, out = T.run_demo(demo)
            res["demo_rc"] = rc
            if rc:
                res["demo_out"] = out[-300:]
        for pid in checks:
            rc, lines, last = T.run_check(pid, 0)
            res["checks"][pid] = {"exit": rc, "first": lines[:2], "summary": [x[:200] for x in last]}
        return res
    finally:
        T.drop_wt()


def main():
    cmd = sys.argv[1]
    if cmd == "try":
        name, patch, demo, notes = sys.argv[2], *map(os.path.abspath, sys.argv[3:6])
        checks = ALL if sys.argv[6] == "all" else sys.argv[6].split(",")
        res = evaluate(patch, demo, checks)
        d = os.path.join(HERE, "benign", name)
        os.makedirs(d, exist_ok=True)
        shutil.copy(patch, os.path.join(d, "patch.diff"))
        for src, dst in ((demo, "demo.py"), (notes, "notes.md")):
            if os.path.exists(src):
                shutil.copy(src, os.path.join(d, dst))
        alarms = [p for p, r in res["checks"].items() if r["exit"] != 0]
        meta = {"written_for": name[:3], "checked_with": checks, "ran": res, "silent": not alarms and res.get("apply") == "ok",
                "origin": "independent sub-agent given only the property text and a scratch worktree, asked for a "
                          "behaviour-preserving change inside the anchored mechanisms"}
        json.dump(meta, open(os.path.join(d, "meta.json"), "w"), indent=1)
        print(name, res.get("apply"), res.get("suite"), "demo_rc=%s" % res.get("demo_rc"), "ALARMS: " + ",".join(alarms) if alarms else "silent",
              "(%d checks)" % len(checks))
        for p in alarms:
            print("  ", p, res["checks"][p]["first"][:2] or res["checks"][p]["summary"])
    elif cmd == "regress":
        only = sys.argv[2] if len(sys.argv) > 2 else ""
        bad = 0
        for name in sorted(os.listdir(os.path.join(HERE, "benign"))):
            d = os.path.join(HERE, "benign", name)
            if not os.path.isdir(d) or not name.startswith(only):
                continue
            meta = json.load(open(os.path.join(d, "meta.json")))
            res = evaluate(os.path.join(d, "patch.diff"), os.path.join(d, "demo.py"), meta["checked_with"])
            alarms = [p for p, r in res["checks"].items() if r["exit"] != 0]
            print(name, res.get("apply"), res.get("suite"), "ALARMS: " + ",".join(alarms) if alarms else "silent", flush=True)
            bad += bool(alarms)
        sys.exit(1 if bad else 0)
    elif cmd == "report":
        rows = ["# Behaviour-preserving changes: every listed check stays silent\n",
                "Each row is a source change kept under `benign/<name>/` that does NOT break its property (refactorings, "
                "renamed private helpers, reworded messages, new optional parameters, internal data-structure changes inside "
                "the anchored mechanisms). The quick checks listed were run against the patched tree (seed 0).\n",
                "| change | checks run | result | suite with patch | what changed |", "|---|---|---|---|---|"]
        for name in sorted(os.listdir(os.path.join(HERE, "benign"))):
            d = os.path.join(HERE, "benign", name)
            if not os.path.isdir(d):
                continue
            m = json.load(open(os.path.join(d, "meta.json")))
            notes = ""
            if os.path.exists(os.path.join(d, "notes.md")):
                notes = " ".join(open(os.path.join(d, "notes.md")).read().split())[:260].replace("|", "/")
            cw = m["checked_with"]
            rows.append(f"| {name} | {'all 20' if len(cw) == 20 else ', '.join(cw)} | {'silent' if m['silent'] else 'ALARM'} | "
                        f"{m['ran'].get('suite')} | {notes} |")
        open(os.path.join(HERE, "benign", "RESULTS.md"), "w").write("\n".join(rows) + "\n")
        print(len(rows) - 4, "rows")


if __name__ == "__main__":
    main()
