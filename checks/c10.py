"""C10 — stored controller encodings are exact bijections on each controller's range.

COMPLETE enumeration: every integer of every range of every specified controller (every unit
variant of unit-dependent ranges), every enum member, both booleans.
Oracle per value v on a module:  set v; raw = get_raw; set_raw(raw); get == v;
raw == v - min if min < 0 else v (no-offset kind: v); raw >= 0 for offset kinds; injective;
pattern_value non-decreasing, pattern_value(min) == 0, pattern_value(max) == 0x8000; compact
kind: pattern_value == v - min.
"""
from enum import Enum

from checks import common as C
from rvmc import spec, treeenv

PROPERTY = "C10"
LEVEL = "exploration"
ASSUMPTIONS = [
    "the YAML specification gives each controller's kind and bounds",
    "MetaModule user-defined proxy controllers are covered by C15 (they are not in the specification)",
]


def cls_of(tkey):
    import rv.modules as M

    return getattr(M, tkey)


def sweep(tkey, cname, unit=None, lo_hi=None, unit_how="attr"):
    t = spec.types()[tkey]
    c = next(x for x in t.controllers if x.name == cname)
    by_name = {x.name: x for x in t.controllers}
    cls = cls_of(tkey)
    m = cls()
    key = {"type": tkey, "controller": c.name, "kind": c.kind}
    case = {"type": tkey, "controller": c.name, "unit": unit}
    vs = []

    def bad(sub, detail):
        if len(vs) < 5:
            vs.append(C.viol(sub, dict(key, sub=sub), detail, case))

    if unit is not None:
        u = by_name[c.depends_on]
        # touch the dependant first so that anything derived from the DEFAULT unit is already in place
        ctl0 = cls.controllers[c.attr]
        ctl0.pattern_value(m, getattr(m, c.attr))
        m.get_raw(c.attr)
        if unit_how == "attr":
            setattr(m, u.attr, u.members[unit])
        elif unit_how == "set_raw":          # the path the file reader uses
            m.set_raw(u.attr, u.members[unit])
        elif unit_how == "after-refused":
            # requests the library REFUSES come first (a stored word that names no unit, an out-of-range value for the
            # dependant): a refusal leaves no trace, the unit chosen afterwards decides the range
            for req in (lambda: m.set_raw(u.attr, max(u.members.values()) + 7),
                        lambda: setattr(m, c.attr, max(hi_ for _lo, hi_ in c.ranges.values()) + 1000),
                        lambda: m.set_raw(u.attr, -5)):
                try:
                    req()
                except Exception:
                    pass
            setattr(m, u.attr, u.members[unit])
        elif unit_how.startswith("truncated-file"):
            # a file whose CVAL list stops BEFORE the unit controller (older layout) is loaded, THEN the unit is chosen
            import rv.api as rv
            from rvref import codec

            keep = 0 if unit_how.endswith("0") else u.number - 1
            chunks = codec.parse_chunks(C.save(rv.Synth(cls())))
            out_chunks, seen = [], 0
            for cid, d in chunks:
                if cid == b"CVAL":
                    seen += 1
                    if seen > keep:
                        continue
                if cid == b"CMID":
                    d = d[:8 * keep]
                    if not d:
                        continue
                out_chunks.append((cid, d))
            m = C.load_bytes(codec.build_chunks(out_chunks)).module
            setattr(m, u.attr, u.members[unit])
        else:                                 # through a save/load
            setattr(m, u.attr, u.members[unit])
            m = m.clone()
        key = dict(key, unit_set_by=unit_how)
        case = dict(case, unit_how=unit_how)
    ctl = cls.controllers[c.attr]
    name = c.attr
    if c.kind == "enum":
        enumcls = getattr(cls, c.enum)
        raws = set()
        for mname, val in c.members.items():
            setattr(m, name, enumcls(val))
            raw = m.get_raw(name)
            if raw != val:
                bad("enum-raw", {"member": mname, "raw": raw})
            m.set_raw(name, raw)
            got = getattr(m, name)
            if not isinstance(got, Enum) or got.value != val:
                bad("enum-roundtrip", {"member": mname, "got": repr(got)})
            raws.add(raw)
        if len(raws) != len(set(c.members.values())):
            bad("enum-collision", {})
        return len(c.members), vs
    if c.kind == "bool":
        for v in (False, True):
            setattr(m, name, v)
            raw = m.get_raw(name)
            if raw != int(v):
                bad("bool-raw", {"v": v, "raw": raw})
            m.set_raw(name, raw)
            if getattr(m, name) is not v:
                bad("bool-roundtrip", {"v": v, "got": repr(getattr(m, name))})
        return 2, vs
    lo, hi = (c.min, c.max) if c.kind != "dependent" else c.ranges[unit]
    a, b = lo_hi or (lo, hi)
    offset = lo < 0 and c.kind != "no_offset"
    prev_pv = None
    n = 0
    get_raw, set_raw, pattern_value = m.get_raw, m.set_raw, ctl.pattern_value
    if unit is not None and (lo_hi is None or lo_hi[0] == lo):
        # BEFORE any attribute assignment to the dependant: the range in effect must already be the one of
        # the unit just selected, whichever way the unit got its value (raw/stored path only from here)
        if pattern_value(m, lo) != 0 or pattern_value(m, hi) != 0x8000:
            bad("pattern-range-stale-after-unit-change", {"unit": unit, "pv_min": pattern_value(m, lo), "pv_max": pattern_value(m, hi)})
        set_raw(name, hi)
        if getattr(m, name) != hi or get_raw(name) != hi:
            bad("raw-roundtrip-after-unit-change", {"unit": unit, "got": getattr(m, name)})
    for v in range(a, b + 1):
        n += 1
        setattr(m, name, v)
        raw = get_raw(name)
        exp = v - lo if offset else v
        if raw != exp:
            bad("raw-value", {"v": v, "raw": raw, "expected": exp})
        if offset and raw < 0:
            bad("raw-negative", {"v": v, "raw": raw})
        setattr(m, name, lo if v != lo else hi)  # move away so set_raw must really restore v
        set_raw(name, raw)
        got = getattr(m, name)
        if got != v or type(got) is not int:
            bad("roundtrip", {"v": v, "raw": raw, "got": repr(got)})
        pv = pattern_value(m, v)
        if c.kind == "compact":
            if pv != v - lo:
                bad("pattern-compact", {"v": v, "pv": pv})
        else:
            if prev_pv is not None and pv < prev_pv:
                bad("pattern-not-monotone", {"v": v, "pv": pv, "prev": prev_pv})
            if v == lo and pv != 0:
                bad("pattern-min", {"v": v, "pv": pv})
            if v == hi and pv != 0x8000:
                bad("pattern-max", {"v": v, "pv": pv})
            if not (0 <= pv <= 0x8000):
                bad("pattern-out-of-range", {"v": v, "pv": pv})
        prev_pv = pv
    # injectivity follows from raw == affine(v); count it anyway for the evidence
    return n, vs


def _cvals(data, in_project):
    """The CVAL words of the (last) module section of a written file."""
    from struct import unpack

    from rvref import codec

    vals = []
    for cid, d in codec.parse_chunks(data):
        if cid == b"SFFF":
            vals = []
        elif cid == b"CVAL":
            vals.append(unpack("<i", d)[0])
    return vals


def file_level(tkey):
    """The STORED value is what a written file carries: for every controller and a boundary-complete value alphabet,
    the k-th CVAL word of the module -- written stand-alone (Synth) and inside a Project -- is v minus a negative
    minimum (else v), and loading the file gives v back."""
    import rv.api as rv

    from rvmc import deviate

    t = spec.types()[tkey]
    cls = cls_of(tkey)
    vs = []
    n = 0
    by_name = {x.name: x for x in t.controllers}
    for idx, c in enumerate(t.controllers):
        variants = [(None, None)]
        if c.kind == "dependent":
            variants = [(u, r) for u, r in c.ranges.items()]
        for unit, rng in variants:
            if c.kind == "enum":
                vals, lo, offset = sorted(set(c.members.values())), 0, False
            elif c.kind == "bool":
                vals, lo, offset = [0, 1], 0, False
            else:
                lo, hi = rng or (c.min, c.max)
                vals = deviate.range_alphabet(lo, hi, 0)
                offset = lo < 0 and c.kind != "no_offset"
            for v in vals:
                for ctxname in ("synth", "project"):
                    n += 1
                    m = cls()
                    if unit is not None:
                        u = by_name[c.depends_on]
                        setattr(m, u.attr, u.members[unit])
                    setattr(m, c.attr, getattr(cls, c.enum)(v) if c.kind == "enum" else bool(v) if c.kind == "bool" else v)
                    if ctxname == "project":
                        p = rv.Project()
                        p.attach_module(m)
                        data = C.save(p)
                    else:
                        data = C.save(rv.Synth(m))
                    words = _cvals(data, ctxname == "project")
                    exp = v - lo if offset else v
                    key = {"type": tkey, "controller": c.name, "ctx": ctxname}
                    case = {"file_level": tkey}
                    if idx >= len(words) or words[idx] != exp:
                        if len(vs) < 6:
                            vs.append(C.viol("stored-word-in-file", key, {"v": v, "expected": exp,
                                                                         "stored": words[idx] if idx < len(words) else None}, case))
                        continue
                    o = C.load_bytes(data)
                    m2 = o.modules[1] if ctxname == "project" else o.module
                    got = getattr(m2, c.attr)
                    if int(getattr(got, "value", got)) != v and len(vs) < 6:
                        vs.append(C.viol("file-roundtrip", key, {"v": v, "stored": words[idx], "got": repr(got)}, case))
    return n, vs


PROXY_TARGETS = [("Amplifier", "balance"), ("Amplifier", "volume"), ("Amplifier", "fine_volume"), ("Fmx", "polyphony"),
                 ("Fmx", "op1_feedback"), ("VorbisPlayer", "finetune"), ("Generator", "waveform"), ("Amplifier", "inverse"),
                 ("Lfo", "freq"), ("Kicker", "acceleration"), ("Compressor", "release")]


def proxy_level(target):
    """A MetaModule's user-defined controller takes over the range of the controller it is mapped to: the same
    storage rule, in the object, in a stand-alone file, in a project file and through clone()."""
    import rv.api as rv

    from rvmc import deviate

    tkey, cname = target
    t = spec.types()[tkey]
    c = next(x for x in t.controllers if x.name == cname)
    cidx = [x.name for x in t.controllers].index(cname)
    if c.kind == "dependent":
        lo, hi = next(iter(c.ranges.values()))
    elif c.kind == "enum":
        lo, hi = min(c.members.values()), max(c.members.values())
    elif c.kind == "bool":
        lo, hi = 0, 1
    else:
        lo, hi = c.min, c.max
    offset = lo < 0 and c.kind != "no_offset"
    vals = sorted(set(c.members.values())) if c.kind == "enum" else deviate.range_alphabet(lo, hi, 0)
    vs, n = [], 0
    for slot, depth in ((0, 1), (3, 1), (0, 2), (2, 3)):
        for v in vals:
            for ctxname in ("object", "synth", "project", "clone"):
                n += 1
                mm = rv.m.MetaModule()
                host = mm
                # depth > 1: the proxy mirrors a proxy of a nested MetaModule ... which mirrors the target
                chain = []
                for _lvl in range(depth - 1):
                    child = host.project.new_module(rv.m.MetaModule)
                    chain.append((host, child))
                    host = child
                inner = host.project.new_module(cls_of(tkey))
                # the proxy mirrors its target: give the TARGET the value, then let the MetaModule pick it up
                # (assigning through the proxy is a different operation -- it drives the target -- and is not used here)
                setattr(inner, c.attr, getattr(cls_of(tkey), c.enum)(v) if c.kind == "enum" else bool(v) if c.kind == "bool" else v)
                host.user_defined_controllers = slot + 1
                mp = host.mappings.values[slot]
                mp.module, mp.controller = inner.index, cidx
                host.update_user_defined_controllers()
                for parent, child in reversed(chain):
                    parent.user_defined_controllers = slot + 1
                    mp = parent.mappings.values[slot]
                    mp.module, mp.controller = child.index, 5 + slot
                    parent.update_user_defined_controllers()
                name = f"user_defined_{slot + 1}"
                key = {"proxy_of": f"{tkey}.{cname}", "ctx": ctxname, "kind": c.kind}
                if depth > 1:
                    key["depth"] = depth
                case = {"proxy_level": list(target)}
                got0 = getattr(mm, name)
                if int(getattr(got0, "value", got0)) != v:
                    if len(vs) < 6:
                        vs.append(C.viol("proxy-does-not-mirror-target", key, {"v": v, "got": repr(got0)}, case))
                    continue
                exp = v - lo if offset else v
                if ctxname == "object":
                    raw = mm.get_raw(name)
                    if raw != exp and len(vs) < 6:
                        vs.append(C.viol("proxy-raw-value", key, {"v": v, "raw": raw, "expected": exp}, case))
                    continue
                if ctxname == "clone":
                    got = getattr(mm.clone(), name)
                else:
                    if ctxname == "project":
                        p = rv.Project()
                        p.attach_module(mm)
                        data = C.save(p)
                    else:
                        data = C.save(rv.Synth(mm))
                    words = _cvals(data, ctxname == "project")
                    if len(words) <= 5 + slot or words[5 + slot] != exp:
                        if len(vs) < 6:
                            vs.append(C.viol("proxy-stored-word-in-file", key, {"v": v, "expected": exp, "words": words[5:]}, case))
                        continue
                    o = C.load_bytes(data)
                    got = getattr(o.modules[1] if ctxname == "project" else o.module, name)
                if int(getattr(got, "value", got)) != v and len(vs) < 6:
                    vs.append(C.viol("proxy-file-roundtrip", key, {"v": v, "got": repr(got)}, case))
    return n, vs


def boundary_table(order):
    """(raw(min), raw(max), pattern(min), pattern(min+1), pattern(max)) of every controller, evaluated in the given
    controller order in THIS process — run in fresh interpreters by order_independence()."""
    out = {}
    items = []
    for tkey, t in spec.types().items():
        for c in t.controllers:
            if c.kind in ("range", "compact", "no_offset"):
                items.append((tkey, c))
    if order == "reverse":
        items.reverse()
    elif order == "compact-first":
        items.sort(key=lambda x: x[1].kind != "compact")
    for tkey, c in items:
        cls = cls_of(tkey)
        m = cls()
        ctl = cls.controllers[c.attr]
        row = []
        for v in (c.min, c.max):
            setattr(m, c.attr, v)
            row.append(m.get_raw(c.attr))
        for v in (c.min, min(c.max, c.min + 1), c.max):
            row.append(ctl.pattern_value(m, v))
        out[f"{tkey}.{c.name}"] = row
    return out


def order_independence():
    """The encodings must not depend on which controller was encoded first in the process (a memo keyed too
    coarsely would make them do so): the boundary table is computed in three fresh interpreters with different
    controller orders and compared with each other and with the specification."""
    import json
    import os
    import subprocess
    import sys

    vs = []
    tables = {}
    env = dict(os.environ, PYTHONPATH=treeenv.VERIF)
    for order in ("forward", "reverse", "compact-first"):
        code = ("import json,sys; from rvmc import treeenv; treeenv.setup(); from checks import c10; "
                f"print(json.dumps(c10.boundary_table({order!r})))")
        r = subprocess.run([sys.executable, "-c", code], capture_output=True, text=True, env=env, cwd=treeenv.VERIF)
        if r.returncode != 0:
            vs.append(C.viol("order-independence-run-failed", {"order": order}, {"stderr": r.stderr[-300:]}, {"order_independence": True}))
            return 0, vs
        tables[order] = json.loads(r.stdout.strip().splitlines()[-1])
    n = 0
    for tkey, t in spec.types().items():
        for c in t.controllers:
            if c.kind not in ("range", "compact", "no_offset"):
                continue
            n += 1
            name = f"{tkey}.{c.name}"
            off = c.min if (c.min < 0 and c.kind != "no_offset") else 0
            span = c.max - c.min
            want = [c.min - off, c.max - off] + ([0, min(span, 1), span] if c.kind == "compact" else [0, None, 0x8000])
            for order, tb in tables.items():
                got = tb[name]
                bad = [i for i in range(5) if want[i] is not None and got[i] != want[i]]
                if bad or got != tables["forward"][name]:
                    vs.append(C.viol("encoding-depends-on-process-order", {"type": tkey, "controller": c.name, "order": order},
                                     {"expected": want, "observed": got, "forward": tables["forward"][name]},
                                     {"order_independence": True}))
    return n * 3, vs


def run_case(case):
    if case.get("order_independence"):
        return order_independence()[1]
    if case.get("file_level"):
        return file_level(case["file_level"])[1]
    if case.get("proxy_level"):
        return proxy_level(tuple(case["proxy_level"]))[1]
    return sweep(case["type"], case["controller"], case.get("unit"), None, case.get("unit_how", "attr"))[1]


def _task(t):
    if t[0] in ("file_level", "proxy_level"):
        r = C.new_result()
        n, vs = file_level(t[1]) if t[0] == "file_level" else proxy_level(t[1])
        r["evals"] = n
        r["violations"] = vs
        r["sample"] = {t[0]: t[1]}
        C.count(r, t[0], n)
        return r
    tkey, cname, unit, a, b = t[:5]
    how = t[5] if len(t) > 5 else "attr"
    r = C.new_result()
    n, vs = sweep(tkey, cname, unit, (a, b) if a is not None else None, how)
    r["evals"] = n
    r["violations"] = vs
    r["sample"] = {"type": tkey, "controller": cname, "unit": unit, "values": [a, b]}
    C.count(r, "sweeps")
    return r


def run(ctx):
    treeenv.setup()
    tasks = []
    nctl = 0
    total = 0
    for tkey, t in spec.types().items():
        for c in t.controllers:
            nctl += 1
            if c.kind in ("enum", "bool"):
                tasks.append((tkey, c.name, None, None, None))
                continue
            units = list(c.ranges.items()) if c.kind == "dependent" else [(None, (c.min, c.max))]
            for u, (lo, hi) in units:
                total += hi - lo + 1
                step = 8192
                # split long ranges; the monotonicity check restarts per slice, so slices overlap by one value
                a = lo
                while a <= hi:
                    b = min(hi, a + step)
                    tasks.append((tkey, c.name, u, a, b))
                    if u is not None:
                        # the unit may also arrive through the reader's path (set_raw) or through a save/load
                        tasks.append((tkey, c.name, u, a, b, "set_raw"))
                        tasks.append((tkey, c.name, u, a, b, "clone"))
                        if a == lo:
                            tasks.append((tkey, c.name, u, a, min(b, a + 64), "truncated-file-0"))
                            tasks.append((tkey, c.name, u, a, min(b, a + 64), "after-refused"))
                            tasks.append((tkey, c.name, u, max(a, hi - 64), hi, "after-refused"))
                            tasks.append((tkey, c.name, u, a, min(b, a + 64), "truncated-file-k"))
                    a = b + 1 if b == hi else b
    for tkey in spec.types():
        tasks.append(("file_level", tkey))
    for tg in PROXY_TARGETS:
        tasks.append(("proxy_level", tg))
    from rvmc.runner import rotate

    agg = C.Agg()
    for r in ctx.pmap(_task, rotate(tasks, ctx.seed), chunksize=2):
        agg.merge(r)
    ctx.add(agg.violations)
    n_oi, v_oi = order_independence()
    ctx.add(v_oi)
    agg.evals += n_oi
    return {
        "evaluations": agg.evals,
        "distinct_nontrivial": total,
        "rule": "every (controller, unit variant, integer value of the range) / every enum member / both booleans — the "
                "whole finite domain; distinct_nontrivial = number of distinct (controller, unit, value) ranged pairs",
        "exhaustive": True,
        "controllers": nctl, "sweeps": agg.counters.get("sweeps", 0), "order_independence_comparisons": n_oi,
        "stored_words_read_from_written_files": agg.counters.get("file_level", 0),
        "metamodule_proxy_controller_evaluations": agg.counters.get("proxy_level", 0),
        "samples": agg.samples,
    }
