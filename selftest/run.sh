#!/bin/sh
# Self tests of the machinery itself (not of radiant-voices).  Run from anywhere.
cd "$(dirname "$0")/.." || exit 2
export PYTHONHASHSEED=0 PYTHONDONTWRITEBYTECODE=1
set -e
/venv/bin/python -m selftest.test_explorer
/venv/bin/python -m rvref.selftest | tail -3
python3-vt - <<'PY'
import json, glob, jsonschema
jsonschema.validate(json.load(open("MANIFEST.json")), json.load(open("/root/.vp/MANIFEST.schema.json")))
es = json.load(open("/root/.vp/EVIDENCE.schema.json"))
n = 0
for f in sorted(glob.glob("evidence/*.json")):
    jsonschema.validate(json.load(open(f)), es)
    n += 1
print("MANIFEST.json and", n, "evidence files validate")
PY
echo "== selftest OK"
