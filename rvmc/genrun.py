"""Runs genrv's PythonGenerator from the tree under test into a scratch directory and
returns {filename: text} of the generated base classes (used by C13 and when repairing
generator defects)."""
import logging
import os
import shutil
import sys
import tempfile

from . import treeenv


def generate():
    treeenv.setup()
    import genrv
    from genrv.tools.generate import enumname
    from jinja2 import Environment, FileSystemLoader, PrefixLoader
    from pathlib import Path
    from stringcase import camelcase, pascalcase

    assert os.path.realpath(genrv.__file__).startswith(treeenv.SRC), genrv.__file__
    from genrv.codegen.python.gen import PythonGenerator

    genrv_path = Path(genrv.__file__).parent
    loader_map = {n: FileSystemLoader(genrv_path / "codegen" / n) for n in ("python", "ts")}
    env = Environment(loader=PrefixLoader(loader_map))
    env.filters.update(camelcase=camelcase, enumname=enumname, hex=hex, pascalcase=pascalcase, repr=repr)
    scratch = tempfile.mkdtemp(prefix="rvgen-")
    try:
        logging.disable(logging.CRITICAL)
        import contextlib
        import io

        def own_environment():
            gen = PythonGenerator(spec_base=os.path.join(treeenv.REPO, "specs"), dest_base=scratch)
            gen.run(env)

        def tree_main():
            # the tree's OWN command line entry point (its template environment, filters and all), pointed at a scratch
            # destination through a config file of the documented form
            import yaml
            from genrv.tools import generate as tool

            cfg = os.path.join(scratch, "genrv-config.yaml")
            with open(cfg, "w") as fh:
                yaml.safe_dump([{"generator": "genrv.codegen.python.gen:PythonGenerator",
                                 "spec_base": os.path.join(treeenv.REPO, "specs") + "/", "dest_base": scratch + "/"}], fh)
            argv, sys.argv = sys.argv, ["generate", "--config", cfg]
            try:
                tool.main()
            finally:
                sys.argv = argv

        with contextlib.redirect_stdout(io.StringIO()), contextlib.redirect_stderr(io.StringIO()):
            try:
                tree_main()
            except SystemExit:
                pass
            except Exception:
                if os.path.isdir(os.path.join(scratch, "modules")):
                    shutil.rmtree(os.path.join(scratch, "modules"))
                own_environment()
        out = {}
        d = os.path.join(scratch, "modules", "base")
        for f in sorted(os.listdir(d)):
            with open(os.path.join(d, f)) as fh:
                out[f] = fh.read()
        return out
    finally:
        shutil.rmtree(scratch, ignore_errors=True)


if __name__ == "__main__":
    files = generate()
    base = os.path.join(treeenv.SRC, "rv", "modules", "base")
    changed = []
    for f, text in files.items():
        p = os.path.join(base, f)
        cur = open(p).read() if os.path.exists(p) else None
        if cur != text:
            changed.append(f)
            if "--write" in sys.argv:
                open(p, "w").write(text)
    print("generated", len(files), "changed:", changed)
