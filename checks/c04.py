"""C04 — loading decodes foreign files per the format and skips unknown chunks.

 (a) files produced by the INDEPENDENT reference encoder (rvref.codec.encode) from abstract
     descriptions: every module type x every single deviation (both containers), layouts rv
     never writes (slot chunk on every module / never, -1 terminated link lists, empty slots at
     every subset of 4 positions, header chunk transpositions);
 (b) all shipped fixtures;
 (c) for every fixture and a sample of generated files, EVERY structure-preserving edit: an
     unknown chunk inserted at each position (also inside pattern / module sections, between
     CHNM and CHDT and inside embedded projects / effects); each occurrence of a documented-
     optional chunk dropped; the CVAL list of each module truncated to every length; every
     adjacent transposition of project header chunks.
Oracle: snapshot(load(file)) == rvref.decode(file) with the documented default for absent
optional chunks and specification defaults for missing trailing CVALs; an unknown chunk
changes nothing (snapshot and re-saved bytes equal the unedited file's); module positions
are those in the file.
"""
import itertools
from struct import pack
import os

from checks import c03, common as C
from rvmc import deviate, snapshot as S, spec, treeenv
from rvref import absdev, codec
from rvref.spec import load_spec

PROPERTY = "C04"
LEVEL = "exploration"
ASSUMPTIONS = [
    "rvref.codec / rvref.absdev are the trusted reference writer and decoder (never import rv)",
    "N16: a field whose chunk is absent and for which neither docs nor YAML state a default is skipped",
    "N5: flags after load = stored flags OR the type's default flags; CHNK counts are not public fields",
    "files older than 1.9.5.0: only the low byte of a note's module number is meaningful (docs: uint8 + reserved byte)",
]

OPTIONAL = [b"SMIN", b"PNME", b"CHFR", b"TIME", b"REPS", b"BVER", b"SLnK", b"CMID"]   # CHFF is not documented as optional
UNKNOWN = (b"ZZZZ", b"\x01\x02\x03")


# ----------------------------------------------------------------------------- expected value from the decoder
def expected_module(dm, loaded_version, in_synth=False):
    """Decoded module -> what the public fields must be after load (None = not demanded)."""
    if dm is None:
        return None
    if in_synth:                                                                 # N8
        dm = dict(dm)
        for k in ("x", "y", "layer", "visualization", "in_links", "in_link_slots"):
            dm[k] = None
    sp = load_spec()
    ts = sp.by_type_string.get(dm["type"])
    m = c03.norm_decoded_module(dm)
    m = dict(m)
    if ts is not None:
        if m["type"] != "Output":
            m["flags"] = (m["flags"] or 0) | ts.default_flags                   # N5
        # (module 0 is created by the project itself, not from its type string: its flags are the stored word)
        amap = c03.attr_names().get(m["type"], {})
        ctl = [list(x) for x in m["controllers"] if not str(x[0]).startswith("#")]
        have = len(ctl)
        if m["type"] == "MetaModule":
            n_user = (m.get("options") or {}).get("user_defined_controllers", 0)
            total = 5 + n_user
            ctl = ctl[:total]
            for i in range(len(ctl), total):
                ctl.append([f"user_defined_{i - 4}", None] if i >= 5 else   # no specified default: mirrors its target
                           [amap.get(ts.controllers[i].name, ts.controllers[i].name), ts.controllers[i].default_value])
        else:
            for c in ts.controllers[have:]:
                ctl.append([amap.get(c.name, c.name), c.default_value])         # missing trailing CVALs -> defaults
        m["controllers"] = ctl
        n = len(ctl)
        cm = m.get("cmid")
        if dm.get("cmid") is None:
            m["cmid"] = None
        else:
            cm = [list(x) for x in cm][:n]
            while len(cm) < n:
                cm.append([0, 0, 0, 0])
            m["cmid"] = cm
    m["chnk"] = None
    if m["type"] == "Output":
        m["name"] = None            # the Output module's name is fixed by the library ("Output"), whatever SNAM says
    pl = dict(m.get("payload") or {})
    if "project" in pl and pl["project"] is not None:
        pl["project"] = expected_project(pl["project"])
    if pl.get("effect"):
        e = dict(pl["effect"])
        e["module"] = expected_module(dm["payload"]["effect"]["module"], loaded_version, in_synth=True)
        e["version"] = None
        pl["effect"] = e
    m["payload"] = pl
    return m


def expected_project(dv, present_ids=None):
    v = dict(dv)
    if present_ids is not None and "NAME" not in present_ids:
        v["name"] = None            # N16: no documented default for an absent NAME
    ver = tuple(v.get("sunvox_version") or (0, 0, 0, 0))
    v["modules"] = [expected_module(m, ver) for m in v["modules"]]
    if ver < (1, 9, 5, 0):
        pats = []
        for p in v["patterns"]:
            if p and p.get("kind") == "pattern":
                p = dict(p)
                p["cells"] = [[[c[0], c[1], c[2] & 0xFF, c[3], c[4]] for c in row] for row in p["cells"]]
            pats.append(p)
        v["patterns"] = pats
    v["sunvox_version"] = None   # compared separately against loaded_sunvox_version
    return v


def prune_none(exp, got):
    """Drops from both sides every dict key whose EXPECTED value is None (= not demanded)."""
    if isinstance(exp, dict) and isinstance(got, dict):
        e2, g2 = {}, {}
        for k in set(exp) | set(got):
            if k in exp and exp[k] is None:
                continue
            if k in exp and k in got:
                e2[k], g2[k] = prune_none(exp[k], got[k])
            elif k in exp:
                e2[k] = exp[k]
            else:
                if k in ("out_links", "out_link_slots"):
                    continue
                g2[k] = got[k]
        return e2, g2
    if isinstance(exp, list) and isinstance(got, list) and len(exp) == len(got):
        pairs = [prune_none(a, b) for a, b in zip(exp, got)]
        return [p[0] for p in pairs], [p[1] for p in pairs]
    if exp is None:
        return None, None
    return exp, got


def compare_loaded(obj, dec_value, present=None):
    """Returns diff list between what the decoder says and the loaded object's snapshot."""
    snap = S.snapshot(obj)
    if dec_value["kind"] == "synth":
        exp = dict(dec_value)
        exp["module"] = expected_module(dec_value["module"], None, in_synth=True)
        lv = list(obj.loaded_sunsynth_version)
        exp["version"] = None
        extra = [] if dec_value.get("version") in (None, lv) else [("loaded_sunsynth_version", dec_value.get("version"), lv)]
    else:
        exp = expected_project(dec_value, (present or {}).get("ids"))
        lv = list(obj.loaded_sunvox_version)
        extra = [] if dec_value.get("sunvox_version") in (None, lv) else [("loaded_sunvox_version", dec_value.get("sunvox_version"), lv)]
    snap = c03.norm_snapshot(snap, exp)
    # sampler envelopes missing from the file are upgraded from legacy data (C16); not compared here
    e, g = prune_none(exp, snap)
    d = S.diff(e, g, limit=12)
    d = [x for x in d if not _excused(x)]
    return extra + d


def smooth_scale_only(d, exp_or_dec):
    """True iff every difference is the `scale` attribute / `scale` controller of a Smooth module
    (known finding: the controller shadows the common attribute)."""
    if not d:
        return False
    for path, _a, _b in d:
        if not (path.endswith(".scale") or path.endswith("controllers[3][1]")):
            return False
        mod = _module_at(exp_or_dec, path)
        if not mod or mod.get("type") != "Smooth":
            return False
    return True


def _module_at(v, path):
    import re

    cur = v
    toks = re.findall(r"[A-Za-z_]+|\[\d+\]", path)
    last_mod = None
    for t in toks:
        if t.startswith("["):
            if isinstance(cur, list):
                i = int(t[1:-1])
                cur = cur[i] if i < len(cur) else None
        elif isinstance(cur, dict):
            cur = cur.get(t)
        else:
            break
        if isinstance(cur, dict) and "type" in cur and "controllers" in cur:
            last_mod = cur
        if cur is None:
            break
    return last_mod


def _excused(x):
    path = x[0]
    if ".payload.envelopes." in path and x[1] == "<absent>":
        return True
    return False


# ----------------------------------------------------------------------------- (a) generated files
def gen_file(case):
    """case -> bytes from the reference encoder."""
    kind = case["g"]
    if kind == "sampler_legacy_map":
        # current note map (0x104..) with trailing zeros, legacy map region (0x24..0x83) holding other values
        m = absdev.build_module("Sampler", [], in_project=False)
        m["payload"]["note_samples"] = list(case["map"])
        b = codec.encode(absdev.make_synth(m))
        ch = codec.parse_chunks(b)
        for i, (cid, d) in enumerate(ch):
            if cid == b"CHDT" and len(d) == 400 and d[0xFC:0x100] == b"PMAS":
                d = bytearray(d)
                d[0x24:0x84] = bytes([case["legacy"]]) * 96
                ch[i] = (cid, bytes(d))
        return codec.build_chunks(ch)
    if kind == "synth":
        m = absdev.build_module(case["type"], case["devs"], in_project=False)
        return codec.encode(absdev.make_synth(m), case.get("layout"))
    mods = [absdev.make_output()]
    for ty, devs in case["mods"]:
        mods.append(None if ty is None else absdev.build_module(ty, devs, in_project=True))
    for (f, t) in case.get("links", []):
        mods[t]["in_links"].append(f)
        mods[t]["in_link_slots"].append(sum(1 for mm in mods if mm and f in mm["in_links"]) - 1)
    pats = [absdev.make_pattern()] if case.get("pattern") else []
    if case.get("pattern_slots"):
        # pattern table with clones stored BEFORE and after their source (the program re-uses the lowest free slot), and holes
        pats = []
        for k_, slot in enumerate(case["pattern_slots"]):
            if slot is None:
                pats.append(None)
            elif slot == "p":
                pt = absdev.make_pattern()
                pt["name"] = f"pat{k_}"
                pt["x"], pt["y"] = 16 * k_, -k_
                pats.append(pt)
            else:
                pats.append({"kind": "clone", "source": int(slot[1:]), "flags_PFFF": 1, "x": 100 + k_, "y": 5 - k_})
    if case.get("cell_module") is not None:
        for pt in pats:
            if pt is not None and pt.get("kind") != "clone":
                pt["cells"][1][0] = [33, 64, case["cell_module"], 0x0203, 0x0405]
                pt["cells"][0][1] = [0, 0, case["cell_module"], 0, 0]        # a cell that holds NOTHING but a module number
    p = absdev.make_project(name="gen", modules=mods, patterns=pats)
    if "versions" in case:
        p["sunvox_version"], p["based_on_version"] = case["versions"]
    if case.get("module_flags") is not None:
        # the stored flags word of each module slot, as a foreign writer may have left it
        for m, w in zip(mods, case["module_flags"]):
            if m is not None and w is not None:
                m["flags"] = w
    return codec.encode(p, case.get("layout"))


def check_file(data, case, key):
    vs = []
    try:
        dec = codec.decode(data)
    except codec.DecodeError:
        return [], "reference-rejects"
    try:
        obj = C.load_bytes(data)
    except Exception as e:
        return [C.viol("well-formed-file-not-loadable", dict(key, exc=type(e).__name__), {"error": repr(e)[:300]}, case)], "raise"
    # the same bytes found in the MIDDLE of a stream the caller has used before (its own header in front, the stream
    # positioned at the start of the file): the loader starts where the stream stands
    try:
        import io

        f_ = io.BytesIO(b"caller's own header\0" + data + b"trailer")
        f_.seek(20)
        from rv.api import read_sunvox_file

        obj_off = read_sunvox_file(f_)
        d_off = S.diff(S.snapshot(obj), S.snapshot(obj_off))
        if d_off:
            vs.append(C.viol("load-depends-on-stream-offset", dict(key, path=S.generic_path(d_off[0][0])), {"diff": S.diff_text(d_off)}, case))
    except Exception as e:
        vs.append(C.viol("load-depends-on-stream-offset", dict(key, exc=type(e).__name__), {"error": repr(e)[:200]}, case))
    d = compare_loaded(obj, dec.value, dec.present)
    if d:
        k2 = {"smooth_scale": True} if smooth_scale_only(d, dec.value) else dict(key, path=S.generic_path(d[0][0]))
        vs.append(C.viol("decoded-field-differs", k2, {"diff": S.diff_text(d)}, case))
    return vs, "ok"


# ----------------------------------------------------------------------------- (c) edits
def positions_for_insert(chunks):
    return range(0, len(chunks) + 1)     # "anywhere in the stream": also in front of the SVOX / SSYN chunk


def edits(data, nested=True):
    """Yields (label, class, edited bytes, kind) for all structure-preserving edits."""
    chunks = codec.parse_chunks(data)
    for pos in positions_for_insert(chunks):
        new = chunks[:pos] + [UNKNOWN] + chunks[pos:]
        yield f"insert@{pos}", "insert:" + (chunks[pos - 1][0].decode("latin1") if pos else "BOF") + "|" + (chunks[pos][0].decode("latin1") if pos < len(chunks) else "EOF"), codec.build_chunks(new), "insert"
    # unknown ids that LOOK like known ones (a byte of a known id replaced by NUL / punctuation / a high byte, other case)
    for uid in (b"BPM\0", b"B.PM", b"\0BPM", b"bpm ", b"NAM\xff", b"SP\x80D", b"CVA\0", b"SFF\0", b"PDT\0"):
        for pos in sorted({1, len(chunks) // 2, len(chunks) - 1}):
            new = chunks[:pos] + [(uid, pack("<I", 77))] + chunks[pos:]
            yield f"lookalike@{pos}:{uid.hex()}", "insert-lookalike:" + uid.hex(), codec.build_chunks(new), "insert"
    for i, (cid, d) in enumerate(chunks):
        if cid in OPTIONAL:
            yield f"drop@{i}:{cid.decode()}", "drop:" + cid.decode(), codec.build_chunks(chunks[:i] + chunks[i + 1:]), "drop"
    # C strings end at the FIRST NUL: whatever follows it inside the chunk (SunVox keeps the old tail of a fixed-size
    # buffer when a name gets shorter) is not part of the value
    for i, (cid, d) in enumerate(chunks):
        if cid in (b"NAME", b"SNAM", b"SMIN", b"PNME") and d:
            head = d.split(b"\0")[0]
            tail = b"\0old tail 01"
            nd = head + tail
            if cid == b"SNAM":
                nd = (head + tail).ljust(32, b"\0")[:32] if len(head) + len(tail) <= 32 else None
            if nd is not None and nd != d:
                yield f"cstr@{i}:{cid.decode()}", "bytes-after-terminator:" + cid.decode(), _with(chunks, i, nd), "insert"
    # CVAL truncation: per module section keep the first k CVALs
    i = 0
    while i < len(chunks):
        if chunks[i][0] == b"CVAL":
            j = i
            while j < len(chunks) and chunks[j][0] == b"CVAL":
                j += 1
            n = j - i
            for keep in range(0, n):
                new = chunks[:i + keep] + chunks[j:]
                if new[i + keep][0] == b"CMID":
                    new[i + keep] = (b"CMID", new[i + keep][1][:8 * keep])
                    if keep == 0:
                        del new[i + keep]
                yield f"cvals@{i}:{keep}/{n}", "truncate-cvals", codec.build_chunks(new), "trunc"
            i = j
        else:
            i += 1
    # adjacent transpositions of independent project header chunks
    hdr_end = next((k for k, (cid, _d) in enumerate(chunks) if cid in (b"PDTA", b"PPAR", b"PEND", b"SFFF", b"SEND")), len(chunks))
    if chunks and chunks[0][0] == b"SVOX":
        for k in range(1, hdr_end - 1):
            new = list(chunks)
            new[k], new[k + 1] = new[k + 1], new[k]
            yield f"swap@{k}", "swap-header", codec.build_chunks(new), "swap"
        # ... and of the (equally independent) attribute chunks inside one pattern section
        for k in range(hdr_end, len(chunks) - 1):
            a, b = chunks[k][0], chunks[k + 1][0]
            # PDTA / PPAR open a section (they say which kind of pattern follows) and PEND closes it: not movable
            if a[:1] == b"P" and b[:1] == b"P" and not {a, b} & {b"PEND", b"PDTA", b"PPAR"} and a != b:
                new = list(chunks)
                new[k], new[k + 1] = new[k + 1], new[k]
                yield f"pswap@{k}", "swap-pattern-chunks:" + a.decode() + "," + b.decode(), codec.build_chunks(new), "swap"
    # ... and of the independent attribute chunks of one module section (SFFF opens it, STYP names the type)
    MOD_ATTR = {b"SNAM", b"SFIN", b"SREL", b"SXXX", b"SYYY", b"SZZZ", b"SSCL", b"SVPR", b"SCOL", b"SMII", b"SMIN",
                b"SMIC", b"SMIB", b"SMIP"}
    for k in range(len(chunks) - 1):
        a, b = chunks[k][0], chunks[k + 1][0]
        if a in MOD_ATTR and b in MOD_ATTR and a != b:
            new = list(chunks)
            new[k], new[k + 1] = new[k + 1], new[k]
            yield f"mswap@{k}", "swap-module-chunks:" + a.decode() + "," + b.decode(), codec.build_chunks(new), "swap"
    if nested:
        for i, (cid, d) in enumerate(chunks):
            if cid == b"CHDT" and d[:4] in (b"SVOX", b"SSYN"):
                for label, cls, nd, kind in edits(d, nested=True):
                    new = list(chunks)
                    new[i] = (cid, nd)
                    yield f"nested@{i}/{label}", "nested/" + cls, codec.build_chunks(new), kind


def _with(chunks, i, payload):
    new = list(chunks)
    new[i] = (chunks[i][0], payload)
    return codec.build_chunks(new)


def check_edits(data, case, key, which=("insert", "drop", "trunc", "swap")):
    vs = []
    n = 0
    try:
        base = C.load_bytes(data)
        base_snap = S.snapshot(base)
        base_bytes = C.save(base)
    except Exception:
        return 0, []
    for label, cls, nd, kind in edits(data):
        if kind not in which:
            continue
        n += 1
        ecase = dict(case, edit=label)
        ekey = dict(key, edit=cls)
        try:
            obj = C.load_bytes(nd)
        except Exception as e:
            vs.append(C.viol("edited-file-not-loadable", dict(ekey, exc=type(e).__name__), {"error": repr(e)[:200], "edit": label}, ecase))
            continue
        if kind in ("drop", "trunc"):
            # a file that merely lacks optional chunks / trailing controller values loads into a USABLE object
            try:
                C.load_bytes(C.save(obj))
            except Exception as e:
                vs.append(C.viol("object-loaded-from-edited-file-cannot-be-saved", dict(ekey, exc=type(e).__name__),
                                 {"error": repr(e)[:200], "edit": label}, ecase))
                continue
        if kind in ("insert", "swap"):
            d = S.diff(base_snap, S.snapshot(obj))
            if d:
                vs.append(C.viol(("bytes-after-terminator-change-result" if cls.startswith("bytes-after") else "unknown-chunk-changes-result")
                                 if kind == "insert" else "header-order-changes-result",
                                 dict(ekey, path=S.generic_path(d[0][0])), {"diff": S.diff_text(d), "edit": label}, ecase))
            elif C.save(obj) != base_bytes:
                vs.append(C.viol("resaved-bytes-differ", ekey, {"edit": label}, ecase))
        else:
            try:
                dec = codec.decode(nd)
            except codec.DecodeError:
                continue
            d = compare_loaded(obj, dec.value, dec.present)
            if d:
                k2 = {"smooth_scale": True} if smooth_scale_only(d, dec.value) else dict(ekey, path=S.generic_path(d[0][0]))
                vs.append(C.viol("decoded-field-differs", k2, {"diff": S.diff_text(d), "edit": label}, ecase))
    return n, vs


# ----------------------------------------------------------------------------- tasks
def run_case(case):
    if "fixture" in case:
        data = open(os.path.join(treeenv.FIXTURES, case["fixture"]), "rb").read()
        key = {"file": case["fixture"]}
    else:
        data = gen_file(case)
        key = gen_key(case)
    if "edit" in case:
        for label, cls, nd, kind in edits(data):
            if label == case["edit"]:
                return [v for v in check_edits(data, {k: v for k, v in case.items() if k != "edit"}, key)[1]
                        if v["case"].get("edit") == label]
        return []
    return check_file(data, case, key)[0]


def gen_key(case):
    if case["g"] == "sampler_legacy_map":
        return {"gen": "sampler_legacy_map"}
    if case["g"] == "synth":
        return {"gen": "synth", "type": case["type"]}
    return {"gen": "project", "type": "+".join(str(t) for t, _ in case["mods"]), "layout": layout_name(case.get("layout"))}


def layout_name(l):
    if not l:
        return "canonical"
    return ",".join(f"{k}={v}" for k, v in sorted(l.items()) if k != "header_order") + (",header_order" if "header_order" in l else "")


_polluted = [False]


def pollute():
    """Once per worker process, BEFORE any file is loaded: build one module of every type and edit its arrays,
    options, bindings and note map in place, then throw it away.  A file that omits an optional chunk must still
    load with the DOCUMENTED default, not with whatever an earlier object left in a shared default."""
    if _polluted[0]:
        return
    _polluted[0] = True
    import rv.api as rv
    from checks import c17

    for k in deviate.type_keys():
        try:
            m = deviate.new_module(k)
            for op in c17.inplace_ops(k):
                if op["k"] not in ("ip_links", "mm_uvalue"):
                    c17.apply_inplace(m, op)
            for path, (lo, hi, length, kind) in deviate.ARRAYS.get(m.mtype, {}).items():
                arr = getattr(getattr(m, path), kind)
                for i in range(0, length, 3):
                    arr[i] = (0.5 if lo is None else (type(m).HarmonicType(5) if path == "harmonic_types" else (lo + hi) // 3))
        except Exception:
            pass
    p = rv.Project()
    p.new_module(rv.m.Generator).drawn_waveform.samples[0] = 55


def _task(t):
    r = C.new_result()
    kind = t[0]
    pollute()
    if kind == "fixture":
        rel = t[1]
        data = open(os.path.join(treeenv.FIXTURES, rel), "rb").read()
        case = {"fixture": rel}
        vs, st = check_file(data, case, {"file": rel})
        r["evals"] += 1
        C.count(r, "fixture-" + st)
        n, v2 = check_edits(data, case, {"file": rel})
        r["evals"] += n
        C.count(r, "edits", n)
        r["violations"] += vs + v2[:30]
        r["digests"].add(C.h8(data))
        r["sample"] = {"fixture": rel, "edit": "insert@3"}
    elif kind == "gen":
        for case in t[1]:
            try:
                data = gen_file(case)
            except Exception as e:
                C.count(r, "reference-cannot-encode")
                continue
            vs, st = check_file(data, case, gen_key(case))
            r["evals"] += 1
            C.count(r, "gen-" + st)
            r["digests"].add(C.h8(data))
            if len(r["violations"]) < 40:
                r["violations"] += vs
            if case.get("with_edits"):
                n, v2 = check_edits(data, case, gen_key(case))
                r["evals"] += n
                C.count(r, "edits", n)
                r["violations"] += v2[:10]
        r["sample"] = t[1][-1] if t[1] else None
    return r


def gen_cases(ctx):
    cases = []
    tys = {k: spec.types()[k].type for k in deviate.type_keys()}
    for k, ty in tys.items():
        devs = deviate.module_devs(k, ctx.seed, spikes="few", opt8="few")
        combos = [[]] + [[d] for d in devs]
        for c in combos:
            cases.append({"g": "synth", "type": ty, "devs": c})
            cases.append({"g": "project", "mods": [[ty, c]]})
        cases[-2 * len(combos)]["with_edits"] = True      # default synth of each type gets all edits
        cases[-2 * len(combos) + 1]["with_edits"] = True  # default project of each type too
    for mp in ([3] * 10 + [0] * 118, [0] * 128, [0] * 96 + [9] * 10 + [0] * 22, [1] * 128, [0] * 50 + [4] + [0] * 77):
        for legacy in (0, 7):
            cases.append({"g": "sampler_legacy_map", "map": mp, "legacy": legacy})
    # layouts rv never writes
    some = ["Amplifier", "Generator", "MultiSynth", "Sampler"]
    for mask in range(16):
        mods = [[None, []] if mask >> i & 1 else [some[i], []] for i in range(4)]
        live = [i + 1 for i in range(4) if not mask >> i & 1]
        links = [[a, b] for a in live for b in live if a != b][:4] + [[a, 0] for a in live]
        for layout in (None, {"slot_chunk": "always"}, {"slot_chunk": "never"}, {"terminate_links": True},
                       {"slot_chunk": "always", "terminate_links": True}):
            cases.append({"g": "project", "mods": mods, "links": links, "layout": layout, "pattern": True})
    # the file's own version (VERS) and the version the song was started in (BVER) on either side of 1.9.5.0, with note
    # cells naming modules below and above 255 (only VERS decides how wide the module column is)
    V = {"old": [1, 9, 4, 2], "edge": [1, 9, 5, 0], "new": [2, 1, 2, 1]}
    for vers in V.values():
        for bver in list(V.values()) + [None]:
            for cm in (0x0023, 0x0123, 0xFF00):
                cases.append({"g": "project", "mods": [["Amplifier", []]], "pattern": True, "versions": [vers, bver],
                              "cell_module": cm})
    for slots in (["c2", "p", "p", "c1"], ["c1", "p"], [None, "c2", "p", None, "c2"], ["p", "c0", "c0"], ["c3", "c3", None, "p"]):
        cases.append({"g": "project", "mods": [["Amplifier", []]], "pattern_slots": slots})
    # ... and both together: every pattern of an old-version file is read with the narrow module column, wherever it sits
    # in the pattern table (after a hole, after a clone, before its clones)
    for slots in (["p", None, "p"], ["p", "c0", "p"], [None, "p", "p"], ["c1", "p", None, "p"], ["p", "p", "c1", None, "p"]):
        for vers in (V["old"], V["new"]):
            for cm in (0x0023, 0x5A05):
                cases.append({"g": "project", "mods": [["Amplifier", []]], "pattern_slots": slots, "versions": [vers, None],
                              "cell_module": cm})
    # module flag words a foreign writer may have left: the "output" bit on an ordinary module, module 0 without it, all bits
    for out_w in (None, 0x41, 0x0, 0xC3):
        for mod_w in (0x53, 0x02, 0x51 | 0x4000, 0xFFFFFFFF, 0):
            cases.append({"g": "project", "mods": [["Amplifier", []], ["Generator", []]], "links": [[1, 0], [2, 1]],
                          "module_flags": [out_w, mod_w, None]})
    if ctx.thorough:
        tk = list(tys.values())
        for a in tk:
            for b in tk:
                cases.append({"g": "project", "mods": [[a, []], [b, []]], "links": [[1, 2], [2, 1], [1, 0], [2, 0]]})
    return cases


def run(ctx):
    treeenv.setup()
    tasks = [("fixture", os.path.relpath(f, treeenv.FIXTURES)) for f in treeenv.fixture_files()]
    gc = gen_cases(ctx)
    tasks += [("gen", gc[i:i + 50]) for i in range(0, len(gc), 50)]
    from rvmc.runner import rotate

    agg = C.Agg()
    for r in ctx.pmap(_task, rotate(tasks, ctx.seed)):
        agg.merge(r)
    ctx.add(agg.violations)
    return {
        "evaluations": agg.evals,
        "distinct_nontrivial": len(agg.digests),
        "rule": "reference-encoded files (every type x every single deviation x {synth, project}; gap/slot/terminator layouts) + "
                "52 fixtures + every structure-preserving edit of fixtures and of each type's default files; distinct_nontrivial "
                "= distinct base files (edits not counted)",
        "exhaustive": True,
        "counters": agg.counters, "generated_cases": len(gc),
        "samples": agg.samples,
    }
