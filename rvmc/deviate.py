"""E-DEV: deviation menus.  A *deviation* is one JSON-able departure from the default object;
objects are enumerated by number of deviations (0, then every 1, then every pair).

Alphabets are boundary-complete for ranges, complete for enums / booleans / small options and
stay inside the DOCUMENTED domain of each field (YAML chunk_types / controller ranges), so that
every generated object is one the properties quantify over.
"""
import itertools

from . import spec

I32_MIN, I32_MAX, U32_MAX = -2**31, 2**31 - 1, 2**32 - 1


# ----------------------------------------------------------------------------- alphabets
def range_alphabet(lo, hi, seed=0):
    """{min, min+1, interior, max-1, max}; the interior representative rotates with the seed."""
    vals = {lo, hi}
    if hi - lo >= 1:
        vals |= {lo + 1, hi - 1}
    if hi - lo >= 4:
        span = hi - lo - 3
        vals.add(lo + 2 + (seed * 7919 + 13) % span)
    if lo < 0 < hi:
        vals |= {-1, 0, 1}
    return sorted(vals)


def ctl_values(c, seed=0, unit=None):
    if c.kind in ("range", "compact", "no_offset"):
        return range_alphabet(c.min, c.max, seed)
    if c.kind == "enum":
        return sorted(set(c.members.values()))
    if c.kind == "bool":
        return [0, 1]
    if c.kind == "dependent":
        lo, hi = c.ranges[unit] if unit is not None else next(iter(c.ranges.values()))
        return range_alphabet(lo, hi, seed)
    raise ValueError(c.kind)


COMMON_ATTRS = {
    # name -> (attribute on the rv object, alphabet)  -- documented domains (YAML chunk_types)
    "finetune": ("mod_finetune", [-256, -255, -1, 1, 255, 256]),
    "relative_note": ("mod_relative_note", [-128, -127, -1, 1, 127, 128]),
    "x": ("x", [I32_MIN, -1, 0, 1, 513, I32_MAX]),
    "y": ("y", [I32_MIN, -1, 0, 1, 513, I32_MAX]),
    "layer": ("layer", [1, 2, 6, 7]),
    "scale": ("scale", [0, 1, 255, 257, 2**31, U32_MAX]),
    "midi_in_always": ("midi_in_always", [True]),
    "midi_in_channel": ("midi_in_channel", [1, 2, 15, 16]),
    "midi_out_channel": ("midi_out_channel", [1, 2, 15, 16]),
    "midi_out_bank": ("midi_out_bank", [0, 1, 127, 16383, I32_MAX]),
    "midi_out_program": ("midi_out_program", [0, 1, 127, I32_MAX]),
    "midi_out_name": ("midi_out_name", ["", "x", "MIDI out é中", "a" * 64]),
    "name": ("name", ["", "x", "0123456789abcdef0123456789abcde", "0123456789abcdef0123456789abcdef",
                      "näme", "中文"]),
}
COLOR_VALUES = [[0, 0, 0], [1, 2, 3], [255, 0, 0], [0, 255, 0], [0, 0, 255], [254, 255, 254]]
FLAG_BITS = {"mute": 0x80, "solo": 0x100, "bypass": 0x4000, "selected": 0x02000000}
VIS_FIELDS = {
    "level_mode": [0, 1, 2, 3, 4], "orientation": [0, 1], "oscilloscope_mode": list(range(8)),
    "oscilloscope_size": [0, 1, 12, 254, 255], "bg_transparency": [0, 1, 2, 3], "shadow_opacity": [0, 1, 2, 3],
}
CMID_VALUES = ([[t, 0, 0, 0] for t in range(1, 9)] + [[3, 16, 0, 0]] + [[3, 1, s, 7] for s in range(1, 6)]
               + [[4, 0, 0, 0xFFFF], [1, 15, 5, 0x1234]]
               # message type still unset but the other fields already chosen (they are stored all the same)
               + [[0, 5, 0, 0], [0, 0, 3, 0], [0, 0, 0, 77]])

# array payloads: attribute path on the module -> (element lo, hi, length, "values"|"samples")
ARRAYS = {
    "Analog generator": {"drawn_waveform": (-128, 127, 32, "samples")},
    "Generator": {"drawn_waveform": (-128, 127, 32, "samples")},
    "FMX": {"custom_waveform": (None, None, 256, "values")},
    "MultiSynth": {"nv_curve": (0, 255, 128, "values"), "vv_curve": (0, 255, 257, "values"),
                   "np_curve": (0, 65535, 128, "values")},
    "SpectraVoice": {"harmonic_freqs": (0, 0x8000, 16, "values"), "harmonic_volumes": (0, 255, 16, "values"),
                     "harmonic_widths": (0, 255, 16, "values"), "harmonic_types": (0, 13, 16, "values")},
    "WaveShaper": {"curve": (0, 65535, 256, "values")},
    "MultiCtl": {"curve": (0, 0x8000, 257, "values")},
}
FLOATS = [0.0, 1.0, -1.0, 0.5, -0.25, 1.5, 3.4028234663852886e38, 1.401298464324817e-45, -2.0]


def type_keys(include_output=False):
    return [k for k in spec.types() if include_output or k != "Output"]


# ----------------------------------------------------------------------------- menus
def module_devs(tkey, seed=0, spikes="all", opt8="all"):
    """All single deviations of one module type."""
    t = spec.types()[tkey]
    devs = []
    by_name = {c.name: c for c in t.controllers}
    for c in t.controllers:
        if c.kind == "dependent":
            u = by_name[c.depends_on]
            for uname, uval in u.members.items():
                for v in ctl_values(c, seed, uname):
                    devs.append({"k": "unit", "u": u.attr, "uv": uval, "n": c.attr, "v": v})
            continue
        for v in ctl_values(c, seed):
            devs.append({"k": "ctl", "n": c.attr, "v": v})
    for o in t.options:
        if o.min is not None and o.max is not None:
            vals = range_alphabet(o.min, o.max, seed)
        elif o.size >= 8 and opt8 != "all":
            vals = [0, 1, 0x55, 0xAA, 0xFE, 0xFF]
        else:
            vals = list(range(2 ** o.size))
        for v in vals:
            devs.append({"k": "opt", "n": o.name, "v": v})
    for name, (_attr, vals) in COMMON_ATTRS.items():
        for v in vals:
            devs.append({"k": "attr", "n": name, "v": v})
    for v in COLOR_VALUES:
        devs.append({"k": "attr", "n": "color", "v": v})
    for fname in FLAG_BITS:
        devs.append({"k": "flag", "n": fname})
    for f, vals in VIS_FIELDS.items():
        for v in vals:
            devs.append({"k": "vis", "n": f, "v": v})
    ctl_names = [c.attr for c in t.controllers]
    for i, n in enumerate(ctl_names):
        if spikes != "all" and i not in (0, len(ctl_names) - 1, (seed * 13 + 1) % max(1, len(ctl_names))):
            continue      # reduced menu (used for pairs / for files as initial states): bindings on 3 controllers
        pick = CMID_VALUES if i in (0, len(ctl_names) - 1) else [CMID_VALUES[(seed + i) % len(CMID_VALUES)], CMID_VALUES[2]]
        for v in pick:
            devs.append({"k": "cmid", "n": n, "v": v})
    for path, (lo, hi, length, _kind) in ARRAYS.get(t.type, {}).items():
        if lo is None:
            for v in FLOATS:
                devs.append({"k": "fill", "p": path, "pat": "const", "v": v})
            idx = range(length) if spikes == "all" else sorted({0, 1, length - 1, (seed * 31 + 7) % length})
            for i in idx:
                devs.append({"k": "elem", "p": path, "i": i, "v": FLOATS[1 + i % (len(FLOATS) - 1)]})
            continue
        for pat in ("min", "max", "ramp", "alt", "shift", "reverse"):
            devs.append({"k": "fill", "p": path, "pat": pat})
        idx = range(length) if spikes == "all" else sorted({0, 1, length - 1, (seed * 31 + 7) % length})
        for i in idx:
            devs.append({"k": "elem", "p": path, "i": i, "v": hi if i % 2 == 0 else lo})
            if spikes == "all" and i in (0, length - 1):
                devs.append({"k": "elem", "p": path, "i": i, "v": lo})
                devs.append({"k": "elem", "p": path, "i": i, "v": (lo + hi) // 2})
        # tables whose ELEMENT TYPE (unsigned 16 bit) is wider than the range the program uses: any content "within the
        # element type" is stored as it is
        if (t.type, path) in (("MultiCtl", "curve"), ("SpectraVoice", "harmonic_freqs")):
            for i, v in ((0, 0xFFFF), (1, 0x8001), (length - 1, 0xFFFF)):
                devs.append({"k": "elem", "p": path, "i": i, "v": v})
    if t.type == "Vorbis player":
        for v in (b"", b"\0", b"OggS" + bytes(range(256)), b"\xff" * 1000, b"OggS" + bytes(65532), bytes(range(256)) * 257):
            devs.append({"k": "attr", "n": "data", "v": v})
    if t.type == "MetaModule":
        # user-defined controllers: count n, with a MIDI binding and a label on the LAST exposed one
        for n in (1, 2, 27, 96):
            devs.append({"k": "mmud", "c": n, "cmid": [3, 1, 0, 9], "label": f"ud{n}"})
        devs.append({"k": "mmud", "c": 3, "cmid": [0, 0, 0, 0], "label": None})
    if t.type == "MultiCtl":
        for i in (0, 1, 15):
            for v in ([0, 0x8000, 1], [0x8000, 0, 2], [1, 2, 255], [U32_MAX, U32_MAX, U32_MAX]):
                devs.append({"k": "mcmap", "i": i, "v": v})
        # all 8 words of a mapping record distinct (the 5 reserved words are stored and must come back in place)
        for i in (0, 7, 15):
            devs.append({"k": "mcmapx", "i": i, "v": [11, 22, 3, 44, 55, 66, 77, 88]})
        # the (min, max, controller) triple still at its default, only the flags / reserved words set
        devs.append({"k": "mcmapx", "i": 0, "v": [0, 0x8000, 0, 1, 0, 0, 0, 0]})
        devs.append({"k": "mcmapx", "i": 15, "v": [0, 0x8000, 0, 0, 0, 0, 0, 9]})
    return devs


def reduced_devs(tkey, seed=0):
    """A REDUCED single-deviation menu used for k = 2 in the quick tier: every controller at {min, max}
    (enums: first and last member), every option at its extreme values,
    unit/dependant extremes, the compound MetaModule / MultiCtl deviations and a handful of common fields.
    All PAIRS of these are enumerated (complete for this menu), so an interaction between any two settings of
    a module at their boundary values is covered in the quick tier; the full menu's pairs are the thorough tier."""
    t = spec.types()[tkey]
    full = module_devs(tkey, seed, spikes="few", opt8="few")
    by_attr = {c.attr: c for c in t.controllers}
    out = []
    for d in full:
        k = d["k"]
        if k == "ctl":
            c = by_attr[d["n"]]
            if c.kind in ("range", "compact", "no_offset"):
                keep = {c.min, c.max}
            elif c.kind == "enum":
                vals = sorted(set(c.members.values()))
                keep = {vals[0], vals[-1]} if len(vals) > 2 else {vals[(seed + 1) % len(vals)]}
            else:
                keep = {0, 1}
            if d["v"] in keep:
                out.append(d)
        elif k == "unit":
            c = by_attr[d["n"]]
            lo, hi = c.ranges[[u for u, v in by_attr[d["u"]].members.items() if v == d["uv"]][0]]
            if d["v"] in (lo, hi):
                out.append(d)
        elif k == "opt":
            o = next(x for x in t.options if x.name == d["n"])
            top = o.max if o.max is not None else 2 ** o.size - 1
            if d["v"] in (0, top, top // 2 + 1 if top > 1 else top):
                out.append(d)
        elif k in ("mmud", "mcmapx"):
            out.append(d)
        elif k == "attr" and (d["n"], str(d["v"])) in {("name", "näme"), ("finetune", "-256"), ("midi_in_channel", "16"),
                                                       ("midi_out_bank", "0"), ("scale", "0"), ("relative_note", "128")}:
            out.append(d)
        elif k == "flag" and d["n"] in ("mute", "bypass"):
            out.append(d)
        elif k == "cmid" and d["v"] == CMID_VALUES[2]:
            out.append(d)
        elif k == "fill" and d.get("pat") in ("max", "const") and d.get("v") in (None, FLOATS[1]):
            out.append(d)
    return out


def dev_field(d):
    """Two deviations with the same field key overwrite each other (not a 2-deviation object)."""
    k = d["k"]
    if k == "unit":
        return ("ctl", d["n"]), ("ctl", d["u"])
    if k in ("ctl", "opt", "attr", "cmid", "vis", "flag"):
        return ((k, d["n"]),)
    if k in ("fill",):
        return (("arr", d["p"]),)
    if k == "elem":
        return (("arr", d["p"], d["i"]), ("arr", d["p"]))
    if k in ("mcmap", "mcmapx"):
        return (("mcmap", d["i"]),)
    if k == "mmud":
        return (("mmud",), ("opt", "user_defined_controllers"))
    return ((k,),)


def compatible(d1, d2):
    f1, f2 = set(dev_field(d1)), set(dev_field(d2))
    if d1["k"] == "elem" and d2["k"] == "elem":
        return (d1["p"], d1["i"]) != (d2["p"], d2["i"])
    return not (f1 & f2)


# ----------------------------------------------------------------------------- application
def new_module(tkey):
    import rv.modules as M

    return getattr(M, tkey)()


def _ctl_value(mod, name, v):
    """Controller values are given as ints; enum controllers receive the member."""
    c = mod.controllers[name]
    t = c.instance_value_type(mod)
    if isinstance(t, type):
        return t(v)
    return v


def apply_dev(mod, d):
    k = d["k"]
    if k == "ctl":
        setattr(mod, d["n"], _ctl_value(mod, d["n"], d["v"]))
    elif k == "unit":
        setattr(mod, d["u"], _ctl_value(mod, d["u"], d["uv"]))
        setattr(mod, d["n"], d["v"])
    elif k == "opt":
        setattr(mod, d["n"], d["v"])
    elif k == "attr":
        n = d["n"]
        if n == "color":
            mod.color = tuple(d["v"])
        elif n == "data":
            mod.data = d["v"]
        elif n == "scale":
            # the common module scale: `mod_scale` where the library has it (a controller may be called `scale`)
            setattr(mod, "mod_scale" if hasattr(mod, "mod_scale") else "scale", d["v"])
        else:
            setattr(mod, COMMON_ATTRS[n][0], d["v"])
    elif k == "flag":
        mod.flags = mod.flags | FLAG_BITS[d["n"]]
    elif k == "vis":
        w = mod.visualization
        setattr(w, d["n"], d["v"])
        mod.visualization = int(w)
    elif k == "cmid":
        from rv.cmidmap import MidiMessageType, Slope

        m = mod.controller_midi_maps[d["n"]]
        ty, ch, sl, par = d["v"]
        m.message_type = MidiMessageType(ty)
        m.channel = ch
        m.slope = Slope(sl)
        m.message_parameter = par
    elif k in ("fill", "elem"):
        lo, hi, length, kind = ARRAYS[mod.mtype][d["p"]]
        chunk = getattr(mod, d["p"])
        cur = list(getattr(chunk, kind))
        if k == "elem":
            cur[d["i"]] = d["v"]
        else:
            pat = d["pat"]
            if pat == "const":
                cur = [d["v"]] * length
            elif pat == "min":
                cur = [lo] * length
            elif pat == "max":
                cur = [hi] * length
            elif pat == "ramp":
                cur = [lo + (i * (hi - lo)) // max(1, length - 1) for i in range(length)]
            elif pat == "alt":
                cur = [hi if i % 2 else lo for i in range(length)]
            elif pat == "shift":
                # the default contents moved by a constant (same step between neighbours, e.g. a transposed keyboard)
                delta = 256 if hi > 4096 else 1
                cur = [max(lo, min(hi, int(v) + delta)) for v in cur]
            elif pat == "reverse":
                cur = [int(v) for v in reversed(cur)]
        if d["p"] == "harmonic_types":
            cur = [type(mod).HarmonicType(int(v)) for v in cur]
        setattr(chunk, kind, cur)
    elif k == "mcmap":
        mp = mod.mappings.values[d["i"]]
        mp.min, mp.max, mp.controller = d["v"]
    elif k == "mcmapx":
        mp = mod.mappings.values[d["i"]]
        (mp.min, mp.max, mp.controller, mp.flags, mp.future_use2, mp.future_use3, mp.future_use4, mp.future_use5) = d["v"]
    elif k == "mmud":
        from rv.cmidmap import MidiMessageType, Slope

        n = d["c"]
        mod.user_defined_controllers = n
        cm = mod.controller_midi_maps[f"user_defined_{n}"]
        ty, ch, sl, par = d["cmid"]
        cm.message_type, cm.channel, cm.slope, cm.message_parameter = MidiMessageType(ty), ch, Slope(sl), par
        if d.get("label") is not None:
            mod.user_defined[n - 1].label = d["label"]
    else:
        raise ValueError(k)


def build(tkey, devs):
    mod = new_module(tkey)
    for d in devs:
        apply_dev(mod, d)
    return mod


COMMON_KINDS = {"attr", "flag", "vis"}


def pairs(devs, common_pairs=True):
    """All compatible pairs.  Pairs in which BOTH deviations are type-independent common fields (placement,
    colour, MIDI in/out, flags, visualisation) go through code shared by all 42 types; with
    common_pairs=False they are skipped (callers enumerate them once, for one representative type)."""
    for a, b in itertools.combinations(range(len(devs)), 2):
        if not common_pairs and devs[a]["k"] in COMMON_KINDS and devs[b]["k"] in COMMON_KINDS \
                and devs[a].get("n") != "data" and devs[b].get("n") != "data":
            continue
        if compatible(devs[a], devs[b]):
            yield devs[a], devs[b]
