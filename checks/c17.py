"""C17 — objects are isolated: no hidden shared state between instances or clones.

E-BFS over (A, B) pairs: A ranges over every module type, Project, Pattern and Synth; B is
obtained by independent construction, by A.clone(), by loading the same bytes as A, and by
construction AFTER A was mutated.  Operations on A: every catalogue deviation (rebinding
form) and the IN-PLACE forms of list-valued payloads (curve.values[i] = v,
envelope.points.append, mappings.values[i].field = v, in_links.append,
controller_midi_maps[name].channel = v, ...), plus save / load / clone.  Histories of depth 1
over the whole catalogue and depth 2 over the in-place payload operations.
Oracle: snapshot(B) and bytes(B) identical before and after every operation on A (and, for
clones, the other way round); a B constructed after mutating A equals the pristine default;
class-level controller registries and the global strictness flag unchanged.
"""
import itertools

from checks import common as C
from rvmc import deviate, snapshot as S, spec, treeenv

PROPERTY = "C17"
LEVEL = "model_checking"
ASSUMPTIONS = [
    "bounded: histories of depth 1 over the full attribute catalogue of every type and depth 2 over in-place payload ops",
    "observation = rvmc.snapshot + written bytes; state the writers and public attributes do not expose is not observed",
]


# ----------------------------------------------------------------------------- in-place ops
def inplace_ops(tkey):
    t = spec.types()[tkey]
    ops = []
    for path, (lo, hi, length, kind) in deviate.ARRAYS.get(t.type, {}).items():
        v = 1.5 if lo is None else (hi if hi is not None else 1)
        for i in (0, length - 1):
            ops.append({"k": "ip_elem", "p": path, "kind": kind, "i": i, "v": v})
        ops.append({"k": "ip_elem", "p": path, "kind": kind, "i": length // 2, "v": 0.25 if lo is None else lo})
        if kind == "values":
            ops.append({"k": "arr_reset", "p": path})            # public reset(), then (in pairs) in-place edits of the result
            ops.append({"k": "arr_grow", "p": path, "kind": kind, "v": 1.0 if lo is None else hi})
        else:
            ops.append({"k": "arr_empty", "p": path, "kind": kind})   # an EMPTY drawn waveform (legal; zero-length block)
            ops.append({"k": "arr_grow", "p": path, "kind": kind, "v": hi})
    ops.append({"k": "ip_links", "which": "in_links"})
    ops.append({"k": "ip_links", "which": "out_link_slots"})
    if t.controllers:
        ops.append({"k": "ip_cmid", "n": t.controllers[0].attr})
        ops.append({"k": "ip_cmid", "n": t.controllers[-1].attr})
    ops.append({"k": "ip_ctlvalues"})
    if t.options:
        ops.append({"k": "ip_optvalues"})
    if t.type == "MultiCtl":
        for i in (0, 15):
            ops.append({"k": "ip_mcmap", "i": i, "f": "min", "v": 77})
            ops.append({"k": "ip_mcmap", "i": i, "f": "controller", "v": 3})
    if t.type == "MetaModule":
        ops += [{"k": "mm_count", "v": 3}, {"k": "mm_count", "v": 96}, {"k": "mm_label", "i": 0, "v": "lbl"},
                {"k": "mm_map", "i": 0, "v": [1, 2]}, {"k": "mm_inner_module"}, {"k": "mm_inner_ctl"}, {"k": "mm_inner_name"},
                {"k": "mm_uvalue", "i": 1, "v": 1234}, {"k": "mm_remap_seq", "first": "MultiSynth.transpose"},
                {"k": "mm_remap_seq", "first": "VorbisPlayer.finetune"}, {"k": "mm_remap_seq", "first": "Lfo.freq"},
                {"k": "mm_remap_seq", "first": "Amplifier.balance"},
                {"k": "mm_map_late", "target": "AnalogGenerator.panning", "v": 40},
                {"k": "mm_map_late", "target": "Amplifier.balance", "v": -5}]
    if t.type == "Sampler":
        ops += [{"k": "sm_env_append", "e": "volume_envelope"}, {"k": "sm_env_append", "e": "pitch_envelope"},
                {"k": "sm_env_point0", "e": "panning_envelope"}, {"k": "sm_env_point_item", "e": "volume_envelope"},
                {"k": "sm_env_point_item", "e": "pitch_envelope"}, {"k": "sm_env_flag", "e": "volume_envelope"},
                {"k": "sm_env_append", "e": "effect0"}, {"k": "sm_notemap"}, {"k": "sm_sample", "i": 0},
                {"k": "sm_sample", "i": 127}, {"k": "sm_effect"}, {"k": "sm_vibrato"}, {"k": "sm_legacy_side", "points": 0},
                {"k": "sm_bytearray", "i": 3}, {"k": "sm_bytearray_edit", "i": 3},
                {"k": "sm_legacy_side", "points": 2}]
    if t.type == "SpectraVoice":
        ops += [{"k": "sv_harmonic", "i": 0}, {"k": "sv_harmonic", "i": 15}]
    return ops


def apply_inplace(mod, op):
    import rv.api as rv

    k = op["k"]
    if k == "ip_elem":
        getattr(getattr(mod, op["p"]), op["kind"])[op["i"]] = (
            type(mod).HarmonicType(int(op["v"])) if op["p"] == "harmonic_types" else op["v"])
    elif k == "arr_reset":
        getattr(mod, op["p"]).reset()
    elif k == "arr_empty":
        setattr(getattr(mod, op["p"]), op["kind"], [])
    elif k == "arr_grow":
        # in-place growth / edit of whatever list object the chunk currently holds
        lst = getattr(getattr(mod, op["p"]), op["kind"])
        if len(lst) >= 4:
            lst[3] = type(mod).HarmonicType(int(op["v"]) % 14) if op["p"] == "harmonic_types" else op["v"]
        else:
            lst.extend([op["v"]] * 3)
    elif k == "ip_links":
        getattr(mod, op["which"]).append(7)
    elif k == "ip_cmid":
        mod.controller_midi_maps[op["n"]].channel = 9
        mod.controller_midi_maps[op["n"]].message_parameter = 99
    elif k == "ip_ctlvalues":
        name = next(iter(mod.controller_values))
        mod.controller_values[name] = mod.controller_values[name]  # touch
        mod.controllers_loaded.add("zzz")
        mod.controllers_loaded.discard("zzz")
        n2 = list(mod.controllers)[-1] if mod.controllers else None
        if n2 is not None and not n2.startswith("user_defined"):
            c = mod.controllers[n2]
            t = c.instance_value_type(mod)
            setattr(mod, n2, (t.max if hasattr(t, "max") else (not getattr(mod, n2)) if t is bool else list(t)[-1]))
    elif k == "ip_optvalues":
        name = sorted(mod.options)[0]
        o = mod.options[name]
        setattr(mod, name, (o.max if o.max is not None else 1))
    elif k == "ip_mcmap":
        setattr(mod.mappings.values[op["i"]], op["f"], op["v"])
    elif k == "mm_count":
        mod.user_defined_controllers = op["v"]
    elif k == "mm_label":
        mod.user_defined_controllers = max(mod.user_defined_controllers, op["i"] + 1)
        mod.user_defined[op["i"]].label = op["v"]
    elif k == "mm_map":
        mod.mappings.values[op["i"]].module, mod.mappings.values[op["i"]].controller = op["v"]
        # re-derive type and value of the re-mapped user-defined controller (as the reader does), otherwise the
        # stored value may be outside the new target's domain and the edit is not an in-domain one
        mod.update_user_defined_controllers()
    elif k == "mm_inner_module":
        mod.project.new_module(rv.m.Amplifier, volume=77)
    elif k == "mm_inner_ctl":
        # edit a controller of an EXISTING embedded module (the one a user-defined controller may be mapped to)
        tgt = next((x for x in mod.project.modules[1:] if x is not None and x.controllers), None)
        if tgt is not None:
            name = next(iter(tgt.controllers))
            t_ = tgt.controllers[name].instance_value_type(tgt)
            if hasattr(t_, "max"):
                setattr(tgt, name, t_.max if getattr(tgt, name) != t_.max else t_.min)
    elif k == "mm_inner_name":
        mod.project.name = "inner"
        mod.project.initial_bpm = 99
    elif k == "mm_remap_seq":
        # one slot synced twice: first onto a controller with a special range object (compact / no-offset /
        # unit-dependent / negative minimum), then re-mapped onto a plain range and synced again
        tname, cname = op["first"].split(".")
        first = mod.project.new_module(getattr(rv.m, tname))
        second = mod.project.new_module(rv.m.Amplifier)
        mod.user_defined_controllers = max(mod.user_defined_controllers, 1)
        mp = mod.mappings.values[0]
        mp.module, mp.controller = first.index, list(first.controllers).index(cname)
        mod.update_user_defined_controllers()
        mp.module, mp.controller = second.index, list(second.controllers).index("volume")
        mod.update_user_defined_controllers()
        mod.set_raw("user_defined_1", 300)
    elif k == "mm_map_late":
        # a user-defined controller is mapped onto a module number that is NOT in the embedded project yet and synced
        # (nothing to resolve), THEN the module is attached there and the controllers are synced again, then a value set
        tname, cname = op["target"].split(".")
        inner = mod.project
        slot = inner.modules.index(None) if None in inner.modules else len(inner.modules)
        mod.user_defined_controllers = max(mod.user_defined_controllers, 1)
        mp = mod.mappings.values[0]
        mp.module, mp.controller = slot, list(getattr(rv.m, tname).controllers).index(cname)
        mod.update_user_defined_controllers()
        tgt = getattr(rv.m, tname)()
        inner.attach_module(tgt)
        assert tgt.index == slot
        mod.update_user_defined_controllers()
        setattr_ud(mod, 0, op["v"])
    elif k == "sm_legacy_side":
        # a SIDE object: an old-layout file (no envelope chunks, legacy point counts as given) is loaded and its
        # upgraded envelopes are edited in place; nothing of that may reach `mod` or any later Sampler
        from struct import unpack

        from rvref import codec

        chunks = codec.parse_chunks(C.save(rv.Synth(rv.m.Sampler())))
        out, skip = [], False
        for cid, d in chunks:
            if cid == b"CHNM":
                (num,) = unpack("<I", d)
                skip = 0x102 <= num <= 0x108
            elif cid not in (b"CHDT", b"CHFF", b"CHFR"):
                skip = False
            if skip:
                continue
            if cid == b"CHDT" and len(d) == 400 and d[0xFC:0x100] == b"PMAS":
                d = bytearray(d)
                d[0xE4] = d[0xE5] = op["points"]
                d = bytes(d)
            out.append((cid, d))
        side = C.load_bytes(codec.build_chunks(out)).module
        side.volume_envelope.points.append((0x111, 0x2222))
        side.panning_envelope.points.append((0x111, 0x1000))
        side.volume_envelope.points[:1] = [(0, 0x1234)]
    elif k == "mm_uvalue":
        mod.user_defined_controllers = max(mod.user_defined_controllers, op["i"] + 1)
        setattr_ud(mod, op["i"], op["v"])
    elif k.startswith("sm_env"):
        e = mod.effect_control_envelopes[0] if op["e"] == "effect0" else getattr(mod, op["e"])
        if k == "sm_env_append":
            e.points.append((0x200, 0x1000))
        elif k == "sm_env_point0":
            e.points[0] = (0, 0x1234 - 0x2000)
        elif k == "sm_env_point_item":
            # a single point changed IN PLACE -- only possible where the tree's points are mutable (tuples are not: then
            # the request has no effect); whatever it changes is this envelope's own
            try:
                e.points[0][1] = 0x0777
            except TypeError:
                pass
        else:
            e.loop = not e.loop
            e.sustain_point = 2
    elif k == "sm_notemap":
        from rv.note import NOTE

        mod.note_samples[NOTE.C0] = 5
        mod.note_samples[NOTE.a9] = 6
    elif k == "sm_sample":
        s = mod.Sample()
        s.data = bytes(range(16))
        s.format = mod.Format.int8
        s.channels = mod.Channels.mono
        s.name = b"smp"
        mod.samples[op["i"]] = s
    elif k == "sm_effect":
        mod.effect = rv.Synth(rv.m.Amplifier(volume=5))
    elif k == "sm_vibrato":
        mod.vibrato_depth = 9
        mod.volume_fadeout = 100
        mod.editor_cursor = 5
    elif k == "sm_bytearray":
        # an editable sample buffer (the writer and `frames` accept any bytes-like object)
        smp = mod.Sample()
        smp.data = bytearray(range(64))
        mod.samples[op["i"]] = smp
    elif k == "sm_bytearray_edit":
        smp = mod.samples[op["i"]]
        if smp is None:
            smp = mod.samples[op["i"]] = mod.Sample()
            smp.data = bytearray(range(64))
        if isinstance(smp.data, (bytes,)):
            smp.data = bytearray(smp.data)      # rebinding on THIS object only
        smp.data[0:4] = b"\x7f\x7e\x7d\x7c"
    elif k == "sv_harmonic":
        h = mod.harmonics[op["i"]]
        h.freq_hz, h.volume, h.width = 2000, 100, 9
    else:
        deviate.apply_dev(mod, op)


def setattr_ud(mod, i, v):
    # user-defined controller i stores a raw value; write it directly as the reader does
    mod.controller_values[f"user_defined_{i + 1}"] = v


# ----------------------------------------------------------------------------- observation
def observe_module(m):
    import rv.api as rv

    return S.module(m, in_project=False), C.save(rv.Synth(m))


def registry_digest():
    import rv.errors as E
    from rv.modules import MODULE_CLASSES

    out = [E.RAISE_CONTROLLER_VALUE_ERRORS]
    for mt in sorted(MODULE_CLASSES):
        cls = MODULE_CLASSES[mt]
        out.append((mt, [(n, c.number, repr(c.value_type), repr(c.default), c._attached)
                         for n, c in cls.controllers.items()],
                    sorted((n, o.byte, o.bit, o.size, repr(o.default)) for n, o in cls.options.items())))
    return repr(out)


_PRISTINE = {}


def pristine(tkey):
    if tkey not in _PRISTINE:
        _PRISTINE[tkey] = observe_module(deviate.new_module(tkey))
    return _PRISTINE[tkey]


def check_history(tkey, hist):
    """hist: list of ops applied to A. Returns violations."""
    vs = []
    case = {"type": tkey, "history": hist}
    opk = "+".join(o["k"] + (":" + str(o.get("p") or o.get("n") or o.get("e") or "")) for o in hist)

    def key(origin, what):
        return {"type": tkey, "op": opk, "origin": origin, "what": what}

    reg0 = registry_digest()
    # direction 1: mutate A, observe Bs
    A = deviate.new_module(tkey)
    B_ind = deviate.new_module(tkey)
    B_clone = A.clone()
    import rv.api as rv

    B_load = C.load_bytes(C.save(rv.Synth(A))).module
    obs = {"independent": observe_module(B_ind), "clone": observe_module(B_clone), "loaded": observe_module(B_load)}
    try:
        for op in hist:
            apply_inplace(A, op)
    except Exception as e:
        return [], "rejected:" + type(e).__name__
    a_obs = observe_module(A)
    # a twin with the same history that nobody has looked at before it is saved (A was read by the harness, and reading
    # may complete lazily built tables): what an object writes must not depend on who looked at it
    try:
        tw = deviate.new_module(tkey)
        for op in hist:
            apply_inplace(tw, op)
        b_tw = C.save(rv.Synth(tw))
        if b_tw != a_obs[1]:
            vs.append(C.viol("bytes-depend-on-whether-the-object-was-read-first", key("unobserved-twin", "bytes"),
                             {"first_difference": C.first_byte_diff(b_tw, a_obs[1])}, case))
    except Exception:
        pass
    for origin, B in (("independent", B_ind), ("clone", B_clone), ("loaded", B_load)):
        now = observe_module(B)
        d = S.diff(obs[origin][0], now[0])
        if d:
            vs.append(C.viol("other-object-changed", key(origin, C.first_diff_key(d)), {"diff": S.diff_text(d)}, case))
        elif now[1] != obs[origin][1]:
            vs.append(C.viol("other-object-bytes-changed", key(origin, "bytes"), {}, case))
    B_after = deviate.new_module(tkey)
    now = observe_module(B_after)
    pr = pristine(tkey)
    d = S.diff(pr[0], now[0])
    if d or now[1] != pr[1]:
        vs.append(C.viol("default-object-changed", key("constructed-after", C.first_diff_key(d) or "bytes"),
                         {"diff": S.diff_text(d)}, case))
    # saving / cloning / loading A must not change A either
    A.clone()
    C.load_bytes(C.save(rv.Synth(A)))
    again = observe_module(A)
    d = S.diff(a_obs[0], again[0])
    if d or again[1] != a_obs[1]:
        vs.append(C.viol("save-load-clone-changes-object", key("self", C.first_diff_key(d) or "bytes"),
                         {"diff": S.diff_text(d)}, case))
    # direction 2: mutate the clone, observe the original
    A2 = deviate.new_module(tkey)
    K = A2.clone()
    sibling = C.load_bytes(C.save(rv.Synth(A2))).module     # another LOADED object: loaded objects must not share parts
    o2 = observe_module(A2)
    o_sib = observe_module(sibling)
    for op in hist:
        apply_inplace(K, op)
    now_sib = observe_module(sibling)
    d = S.diff(o_sib[0], now_sib[0])
    if d or now_sib[1] != o_sib[1]:
        vs.append(C.viol("other-object-changed", key("loaded-sibling-of-the-clone", C.first_diff_key(d) or "bytes"),
                         {"diff": S.diff_text(d)}, case))
    now = observe_module(A2)
    d = S.diff(o2[0], now[0])
    if d or now[1] != o2[1]:
        vs.append(C.viol("original-changed-by-clone", key("original", C.first_diff_key(d) or "bytes"),
                         {"diff": S.diff_text(d)}, case))
    # direction 3: two objects LOADED from the same bytes (a parse cache must not make them share state)
    A3 = deviate.new_module(tkey)
    data = C.save(rv.Synth(A3))
    L1 = C.load_bytes(data).module
    L2 = C.load_bytes(data).module
    L3 = L1.clone()
    o_l2, o_l3 = observe_module(L2), observe_module(L3)
    try:
        for op in hist:
            apply_inplace(L1, op)
        for origin, X, o in (("loaded-twice", L2, o_l2), ("clone-of-loaded", L3, o_l3)):
            now = observe_module(X)
            d = S.diff(o[0], now[0])
            if d or now[1] != o[1]:
                vs.append(C.viol("other-object-changed", key(origin, C.first_diff_key(d) or "bytes"),
                                 {"diff": S.diff_text(d)}, case))
        L4 = C.load_bytes(data).module
        now = observe_module(L4)
        if S.diff(o_l2[0], now[0]) or now[1] != o_l2[1]:
            vs.append(C.viol("later-load-of-same-bytes-differs", key("loaded-after", "snapshot"), {}, case))
    except Exception:
        pass
    # direction 4 (histories of two ops): the first op BEFORE a clone, the rest ON the clone -- what the load puts in
    # place of a value the first op made special (e.g. emptied) must not be shared with the class or with others
    if len(hist) >= 2:
        try:
            A4 = deviate.new_module(tkey)
            apply_inplace(A4, hist[0])
            o_a4 = observe_module(A4)
            K4 = A4.clone()
            L4 = C.load_bytes(C.save(rv.Synth(A4))).module
            for X in (K4, L4):
                for op in hist[1:]:
                    apply_inplace(X, op)
            now = observe_module(A4)
            d = S.diff(o_a4[0], now[0])
            if d or now[1] != o_a4[1]:
                vs.append(C.viol("original-changed-by-clone", key("original-after-first-op", C.first_diff_key(d) or "bytes"),
                                 {"diff": S.diff_text(d)}, case))
            # ... and the copies themselves: cloning / saving a copy that was edited after it had been loaded leaves it as it is
            for X, which in ((K4, "clone-edited-after-cloning"), (L4, "loaded-then-edited")):
                s_x = S.module(X, in_project=False)
                X.clone()
                C.save(rv.Synth(X))
                d = S.diff(s_x, S.module(X, in_project=False))
                if d:
                    vs.append(C.viol("save-load-clone-changes-object", key(which, C.first_diff_key(d)),
                                     {"diff": S.diff_text(d)}, case))
            fresh = observe_module(deviate.new_module(tkey))
            d = S.diff(pr[0], fresh[0])
            if d or fresh[1] != pr[1]:
                vs.append(C.viol("default-object-changed", key("constructed-after-split-history", C.first_diff_key(d) or "bytes"),
                                 {"diff": S.diff_text(d)}, case))
        except Exception:
            pass
    if registry_digest() != reg0:
        vs.append(C.viol("class-registry-or-flag-changed", key("global", "registry"), {}, case))
    return vs, "ok"


# ----------------------------------------------------------------------------- failed constructors
def failed_constructors():
    """A constructor call that is REFUSED (an out-of-range keyword) must leave no trace: a default object built
    afterwards is pristine, and objects handed to the refused call (an embedded project that already belongs to another
    MetaModule) still belong to their owner and still work."""
    import rv.api as rv

    vs, n = [], 0
    for tkey, t in spec.types().items():
        cls = getattr(rv.m, tkey)
        bad = next((c for c in t.controllers if c.kind in ("range", "compact", "no_offset")), None)
        if bad is None:
            continue
        n += 1
        case = {"failed_ctor": tkey}
        pr = pristine(tkey)
        owner = inner = o_owner = None
        kw = {bad.attr: bad.max + 100000}
        if tkey == "MetaModule":
            owner = rv.m.MetaModule()
            inner = owner.project.new_module(rv.m.Amplifier)
            o_owner = observe_module(owner)
            kw["project"] = owner.project
        try:
            cls(**kw)
            continue            # accepting is C09's business, not an isolation matter
        except Exception:
            pass
        now = observe_module(deviate.new_module(tkey))
        d = S.diff(pr[0], now[0])
        if d or now[1] != pr[1]:
            vs.append(C.viol("default-object-changed", {"type": tkey, "op": "refused-constructor", "origin": "constructed-after",
                                                        "what": C.first_diff_key(d) or "bytes"}, {"diff": S.diff_text(d)}, case))
        if owner is not None:
            if getattr(owner.project, "metamodule", owner) is not owner:
                vs.append(C.viol("other-object-changed", {"type": tkey, "op": "refused-constructor", "origin": "owner-of-the-argument",
                                                          "what": "project.metamodule"}, {}, case))
            try:
                again = observe_module(owner)
                inner.volume = 7
                inner.volume = 256
            except Exception as e:
                vs.append(C.viol("other-object-changed", {"type": tkey, "op": "refused-constructor", "origin": "owner-of-the-argument",
                                                          "what": "unusable:" + type(e).__name__}, {"error": repr(e)[:200]}, case))
                continue
            d = S.diff(o_owner[0], again[0])
            if d or again[1] != o_owner[1]:
                vs.append(C.viol("other-object-changed", {"type": tkey, "op": "refused-constructor", "origin": "owner-of-the-argument",
                                                          "what": C.first_diff_key(d) or "bytes"}, {"diff": S.diff_text(d)}, case))
    return n, vs


# ----------------------------------------------------------------------------- legacy side objects
def legacy_side_objects():
    """A Sampler loaded from an OLD-layout file (it replays its raw chunks when saved) stays what it is while other
    samplers -- modern, old-layout, constructed -- are loaded, cloned and saved around it; and the same old-layout file
    loaded later in the process gives the same object and bytes as the one loaded first."""
    import rv.api as rv

    from checks import c16

    vs, n = [], 0
    variants = c16.legacy_variants()
    modern = variants["as-is"]
    for name, data in variants.items():
        if name == "as-is":
            continue
        n += 1
        case = {"legacy_side": name}
        B = C.load_bytes(data).module
        o0 = observe_module(B)
        # activity around B
        C.load_bytes(modern).module.clone()
        x = rv.m.Sampler()
        x.clone()
        for other, d2 in variants.items():
            y = C.load_bytes(d2)
            C.save(y)
        o1 = observe_module(B)
        d = S.diff(o0[0], o1[0])
        if d or o0[1] != o1[1]:
            vs.append(C.viol("other-object-changed", {"type": "Sampler", "op": "load-other-samplers", "origin": "old-layout-sampler:" + name,
                                                      "what": C.first_diff_key(d) or "bytes"},
                             {"diff": S.diff_text(d), "lens": [len(o0[1]), len(o1[1])]}, case))
        B2 = C.load_bytes(data).module
        o2 = observe_module(B2)
        d = S.diff(o0[0], o2[0])
        if d or o0[1] != o2[1]:
            vs.append(C.viol("later-load-of-same-bytes-differs", {"type": "Sampler", "op": "load-other-samplers", "origin": "old-layout-sampler:" + name,
                                                                  "what": C.first_diff_key(d) or "bytes"},
                             {"diff": S.diff_text(d), "lens": [len(o0[1]), len(o2[1])]}, case))
    return n, vs[:6]


# ----------------------------------------------------------------------------- foreign files
def foreign_file_loads():
    """Loading files this library did not write -- more stored controller values than the type has, values outside their
    ranges, option bytes all set, shorter records -- must not change any OTHER object: a module of the same type built
    before, and a module built afterwards, stay what they were."""
    from struct import pack

    import rv.api as rv
    from rvref import codec

    vs, n = [], 0
    for tkey in deviate.type_keys():
        base = deviate.new_module(tkey)
        data = C.save(rv.Synth(base))
        chunks = codec.parse_chunks(data)
        o0 = observe_module(base)
        pr = pristine(tkey)
        variants = []
        ci = next((i for i, (cid, _d) in enumerate(chunks) if cid == b"CMID"), None)
        if ci is not None:
            for extra in ([1], [1, 2, 3]):
                new = chunks[:ci] + [(b"CVAL", pack("<i", v)) for v in extra] + \
                    [(b"CMID", chunks[ci][1] + (b"\0" * 7 + b"\xff") * len(extra))] + chunks[ci + 1:]
                variants.append(("surplus-cvals", codec.build_chunks(new)))
        variants.append(("cvals-far-out-of-range", codec.build_chunks([(cid, pack("<i", 70000) if cid == b"CVAL" else d) for cid, d in chunks])))
        variants.append(("cvals-negative", codec.build_chunks([(cid, pack("<i", -300) if cid == b"CVAL" else d) for cid, d in chunks])))
        for name, x in variants:
            n += 1
            case = {"foreign_load": [tkey, name]}
            try:
                y = C.load_bytes(x)
                C.save(y)
                y.module.clone()
            except Exception:
                pass
            o1 = observe_module(base)
            d = S.diff(o0[0], o1[0])
            if d or o0[1] != o1[1]:
                vs.append(C.viol("other-object-changed", {"type": tkey, "op": "load-foreign-file:" + name, "origin": "built-before",
                                                          "what": C.first_diff_key(d) or "bytes"}, {"diff": S.diff_text(d)}, case))
            now = observe_module(deviate.new_module(tkey))
            d = S.diff(pr[0], now[0])
            if d or now[1] != pr[1]:
                vs.append(C.viol("default-object-changed", {"type": tkey, "op": "load-foreign-file:" + name, "origin": "constructed-after",
                                                            "what": C.first_diff_key(d) or "bytes"}, {"diff": S.diff_text(d)}, case))
    return n, vs[:8]


def embedded_project_handover():
    """An embedded project handed from one MetaModule to another: M1 embeds p, M1 is given q instead, M2 embeds p (also:
    M2 embeds p first / M1 is built with q directly).  Editing a module of p afterwards is M2's business: M1 -- its
    controller values and its saved bytes -- stays as it is, and so does the module inside q."""
    import rv.api as rv

    vs, n = [], 0
    for order in ("direct", "reassigned", "reassigned-after-m2"):
        for mapped in (False, "index", "number"):
            n += 1
            case = {"handover": [order, mapped]}
            p, q = rv.Project(), rv.Project()
            amp_p, amp_q = p.new_module(rv.m.Amplifier), q.new_module(rv.m.Amplifier)
            try:
                if order == "direct":
                    m1 = rv.m.MetaModule(project=q)
                    m2 = rv.m.MetaModule(project=p)
                elif order == "reassigned":
                    m1 = rv.m.MetaModule(project=p)
                    m1.project = q
                    m2 = rv.m.MetaModule(project=p)
                else:
                    m1 = rv.m.MetaModule(project=q)
                    m2 = rv.m.MetaModule(project=p)
                    m3 = rv.m.MetaModule(project=rv.Project())
                    m3.project = rv.Project()
                if mapped:
                    for mm, tgt in ((m1, amp_q), (m2, amp_p)):
                        mm.user_defined_controllers = 1
                        mp = mm.mappings.values[0]
                        # the mapped controller named by its position (0) or by its controller number (1): both occur
                        mp.module, mp.controller = tgt.index, (0 if mapped == "index" else tgt.controllers["volume"].number)
                        if mapped == "index":
                            mm.update_user_defined_controllers()
                before = observe_module(m1)
                q_before = amp_q.volume
                amp_p.volume = 100
                amp_p.balance = -7
                after = observe_module(m1)
            except Exception as e:
                vs.append(C.viol("container-op-raises", {"order": order, "exc": type(e).__name__}, {"error": repr(e)[:200]}, case))
                continue
            d = S.diff(before[0], after[0])
            if d or before[1] != after[1] or amp_q.volume != q_before:
                vs.append(C.viol("other-object-changed", {"origin": "metamodule-that-gave-the-project-away", "order": order,
                                                          "what": C.first_diff_key(d) or "bytes"}, {"diff": S.diff_text(d)}, case))
    return n, vs


# ----------------------------------------------------------------------------- containers
def container_histories():
    return [
        [{"c": "field"}], [{"c": "new_module"}], [{"c": "connect"}], [{"c": "pattern"}], [{"c": "note"}],
        [{"c": "pattern_attr"}], [{"c": "module_ctl"}], [{"c": "new_module"}, {"c": "connect"}],
        [{"c": "pattern"}, {"c": "note"}], [{"c": "attach_none"}], [{"c": "clone_note"}],
        [{"c": "cross_connect"}], [{"c": "connect"}, {"c": "cross_connect"}], [{"c": "cross_attach"}],
        [{"c": "note_clone_transplant"}], [{"c": "note"}, {"c": "note_clone_transplant"}],
        # cross-project requests against a project that HAS an empty module / pattern position
        [{"c": "attach_none"}, {"c": "cross_attach"}], [{"c": "attach_none"}, {"c": "cross_connect"}],
        [{"c": "attach_none"}, {"c": "new_module"}, {"c": "attach_none"}, {"c": "cross_attach"}],
    ]


def check_container(hist):
    import rv.api as rv

    vs = []
    case = {"container": hist}
    opk = "+".join(o["c"] for o in hist)

    def mk():
        p = rv.Project()
        p.new_module(rv.m.Generator)
        p.attach_pattern(rv.Pattern(tracks=2, lines=2))
        return p

    def obs(p):
        return S.project(p), C.save(p)

    A, B = mk(), mk()
    Bc = A.clone()
    Bl = C.load_bytes(C.save(A))
    P_free, P_other = rv.Pattern(tracks=2, lines=2), rv.Pattern(tracks=2, lines=2)
    before = {"independent": obs(B), "clone": obs(Bc), "loaded": obs(Bl)}
    pat_before = S.pattern(P_other)
    for op in hist:
        c = op["c"]
        if c == "field":
            A.name, A.initial_bpm, A.flags = "changed", 77, 1
        elif c == "new_module":
            A.new_module(rv.m.Amplifier)
        elif c == "connect":
            A.modules[1] >> A.output
        elif c == "pattern":
            A.attach_pattern(rv.PatternClone(source=0))
            A.patterns[0].data[0][0].vel = 9
        elif c == "note":
            n = A.patterns[0].data[1][1]
            n.note, n.module, n.val = rv.NOTECMD.C5, 2, 0x1234
        elif c == "pattern_attr":
            A.patterns[0].name, A.patterns[0].x = "pat", 40
            A.patterns[0].fg_color = (1, 2, 3)
        elif c == "module_ctl":
            A.modules[1].volume = 1
            A.modules[1].drawn_waveform.samples[3] = 99
        elif c == "attach_none":
            A.attach_module(None)
            A.attach_pattern(None)
        elif c in ("cross_connect", "cross_attach"):
            # requests that involve an object OWNED BY B (or by the clone / the loaded copy) are refused, and
            # refused or not they must not touch the other project
            for other in (B, Bc, Bl):
                for attempt in ((lambda o=other: A.connect(A.modules[1], o.modules[1])),
                                (lambda o=other: A.connect(o.modules[1], A.output)),
                                (lambda o=other: A.modules[1] >> o.output),
                                (lambda o=other: A.connect(A.modules[1], ~o.modules[1]))) if c == "cross_connect" else \
                               ((lambda o=other: A.attach_module(o.modules[1])),
                                (lambda o=other: A.attach_pattern(o.patterns[0]))):
                    try:
                        attempt()
                    except Exception:
                        pass
            if c == "cross_attach":
                # ... then ordinary work on everything A now holds: if a foreign object slipped in, its owner sees it
                for m_ in list(A.modules):
                    if m_ is None or m_ is A.output:
                        continue
                    try:
                        A.connect(m_, A.output)
                        if hasattr(m_, "volume"):
                            m_.volume = 3
                        m_.name = "touched"
                    except Exception:
                        pass
                for pt_ in list(A.patterns):
                    if pt_ is not None and hasattr(pt_, "data"):
                        try:
                            pt_.data[0][0].vel = 77
                        except Exception:
                            pass
        elif c == "note_clone_transplant":
            # clone() of the SMALLEST object: a note cloned out of each other project's pattern is put (plain item
            # assignment) into A's pattern and then used through its owner-relative accessors -- whatever they resolve
            # to must not be anything owned by the project the note was cloned from
            for origin, other in (("independent", B), ("clone", Bc), ("loaded", Bl)):
                src = other.patterns[0].data[1][0]
                cl = src.clone()
                cl.module = 2                       # names module 1 of whatever project it resolves in
                A.patterns[0].data[1][0] = cl
                for acc in ("pattern", "project", "mod"):
                    try:
                        got = getattr(cl, acc)
                    except Exception:
                        continue
                    owner = got if acc == "project" else getattr(got, "project", None) if acc == "pattern" else getattr(got, "parent", None)
                    if got is not None and (got is other or owner is other):
                        vs.append(C.viol("clone-still-tied-to-original", {"type": "Note", "op": opk, "origin": origin, "what": acc}, {}, case))
                    if acc == "mod" and got is not None:
                        try:
                            got.volume = 7
                        except Exception:
                            pass
        elif c == "clone_note":
            P_free.data[0][0].note = rv.NOTECMD.C5
            P_free.data[0][0].vel = 100
            P_free.name = "x"
    for origin, X in (("independent", B), ("clone", Bc), ("loaded", Bl)):
        now = obs(X)
        d = S.diff(before[origin][0], now[0])
        if d or now[1] != before[origin][1]:
            vs.append(C.viol("other-object-changed", {"type": "Project", "op": opk, "origin": origin,
                                                      "what": C.first_diff_key(d) or "bytes"},
                             {"diff": S.diff_text(d)}, case))
    if S.diff(pat_before, S.pattern(P_other)) or S.diff(pat_before, S.pattern(rv.Pattern(tracks=2, lines=2))):
        vs.append(C.viol("other-object-changed", {"type": "Pattern", "op": opk, "origin": "independent", "what": "pattern"},
                         {}, case))
    fresh = obs(mk())
    pr = obs(B)
    if S.diff(pr[0], fresh[0]) or pr[1] != fresh[1]:
        vs.append(C.viol("default-object-changed", {"type": "Project", "op": opk, "origin": "constructed-after", "what": "project"},
                         {}, case))
    # Synth wrappers around two modules
    s1, s2 = rv.Synth(rv.m.Amplifier()), rv.Synth(rv.m.Amplifier())
    b2 = C.save(s2)
    s1.module.volume = 3
    s1.sunsynth_version = (1, 2, 3, 4)
    if C.save(s2) != b2 or rv.Synth().sunsynth_version != (2, 1, 2, 1):
        vs.append(C.viol("other-object-changed", {"type": "Synth", "op": opk, "origin": "independent", "what": "synth"}, {}, case))
    return vs


def run_case(case):
    if "foreign_load" in case:
        return [v for v in foreign_file_loads()[1] if v["case"] == case]
    if "legacy_side" in case:
        return [v for v in legacy_side_objects()[1] if v["case"] == case]
    if "failed_ctor" in case:
        return [v for v in failed_constructors()[1] if v["case"] == case]
    if "handover" in case:
        return [v for v in embedded_project_handover()[1] if v["case"] == case]
    if "container" in case:
        return check_container(case["container"])
    return check_history(case["type"], case["history"])[0]


def _task(t):
    if t[0] == "foreign_loads":
        r = C.new_result()
        n, vs = foreign_file_loads()
        r["evals"] = n
        r["violations"] = vs
        r["sample"] = {"foreign_load": ["Sampler", "surplus-cvals"]}
        return r
    if t[0] == "legacy_side":
        r = C.new_result()
        n, vs = legacy_side_objects()
        r["evals"] = n
        r["violations"] = vs
        r["sample"] = {"legacy_side": "signature-altered"}
        return r
    if t[0] == "handover":
        r = C.new_result()
        n, vs = embedded_project_handover()
        r["evals"] = n
        r["violations"] = vs
        r["sample"] = {"handover": ["reassigned", True]}
        return r
    if t[0] == "failed_ctors":
        r = C.new_result()
        n, vs = failed_constructors()
        r["evals"] = n
        r["violations"] = vs
        r["sample"] = {"failed_ctor": "MetaModule"}
        return r
    r = C.new_result()
    if t[0] == "containers":
        for h in container_histories():
            r["violations"] += check_container(h)
            r["evals"] += 1
        r["sample"] = {"container": container_histories()[-3]}
        return r
    _k, tkey, seed, depth2, lo, hi = t
    devs = deviate.module_devs(tkey, seed, spikes="few", opt8="few")
    ip = inplace_ops(tkey)
    hists = [[d] for d in devs] + [[o] for o in ip]
    if depth2:
        hists += [list(p) for p in itertools.permutations(ip, 2)]
    outcomes = set()
    for h in hists[lo:hi]:
        vs, st = check_history(tkey, h)
        r["evals"] += 1
        C.count(r, st.split(":")[0])
        outcomes.add((tkey, tuple(o["k"] for o in h), st))
        if len(r["violations"]) < 30:
            r["violations"] += vs
    r["digests"] = {repr(o).encode() for o in outcomes}
    if hists[lo:hi]:
        r["sample"] = {"type": tkey, "history": hists[lo:hi][-1]}
    return r


def run(ctx):
    treeenv.setup()
    for k in deviate.type_keys():
        pristine(k)  # computed in the parent BEFORE the pool forks and before any mutation
    tasks = [("containers",), ("failed_ctors",), ("legacy_side",), ("foreign_loads",), ("handover",)]
    total = 0
    for k in deviate.type_keys():
        devs = deviate.module_devs(k, ctx.seed, spikes="few", opt8="few")
        ip = inplace_ops(k)
        n = len(devs) + len(ip) + len(ip) * (len(ip) - 1)
        total += n
        for lo in range(0, n, 40):
            tasks.append(("mod", k, ctx.seed, True, lo, min(n, lo + 40)))
    from rvmc.runner import rotate

    agg = C.Agg()
    for r in ctx.pmap(_task, rotate(tasks, ctx.seed)):
        agg.merge(r)
    ctx.add(agg.violations)
    return {
        "states": len(agg.digests) + 1,
        "transitions": agg.evals * 6,
        "traces_validated_against_impl": agg.evals,
        "exhaustive": True,
        "histories": agg.evals, "rejected_ops": agg.counters.get("rejected", 0),
        "pairs_per_history": "A vs {independent, clone, loaded, constructed-after} + clone->original + self save/load/clone",
        "types": len(deviate.type_keys()) + 3,
        "samples": agg.samples,
        "rule": "every history (depth 1 over the catalogue + in-place ops, depth 2 over ordered pairs of in-place ops) on A with "
                "every B origin observed before/after; states = distinct (type, op kinds, outcome) + initial",
    }
