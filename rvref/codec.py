"""rvref.codec -- independent reference decoder / encoder for SunVox files.

Written ONLY from docs/sunvox-file-format.rst (D), specs/fileformat.yaml (Y),
CHANGELOG.rst (L), the task's property text (P) and the SunVox struct notes
relayed by rvref/SHAPE.md (S).  It never imports ``rv``.  The value shape, the
API and the ground-truth table are defined in rvref/SHAPE.md.

Public API
    DecodeError
    parse_chunks(data) -> [(id, payload)]      strict IFF-style framing (D)
    build_chunks([(id, payload)]) -> bytes
    decode(data) -> Decoded(value, problems, present)
    encode(value, layout=None) -> bytes

DECISIONS (choices where SHAPE.md / the sources are silent or ambiguous)
   1. ``_present`` is NOT stored inside ``Decoded.value`` (it would break
      ``decode(encode(v)).value == v`` and comparisons against snapshots).
      ``Decoded.present`` mirrors the value instead:
        project: {"ids": set, "patterns": [None | {"_present": [...]}],
                  "modules": [None | module_present]}
        synth:   {"ids": set, "module": module_present}
        module_present: {"_present": sorted ids, "chnm": sorted CHNM numbers,
                         "nested": present of embedded project/effect | None}
      ids are ``str`` (latin-1).  ``Decoded.annotated()`` returns a deep copy
      of the value with those ``_present`` lists merged into the module and
      pattern dicts; ``encode`` ignores every key that starts with "_".
   2. Module level AND pattern level: a key whose chunk is absent is ``None``
      (exceptions: ``type`` -> "Output", ``midi_out_name`` -> "",
      ``controllers``/``cvals_raw`` -> []).  ``encode`` omits a chunk whose
      value is None (and STYP when type == "Output", SMIN when name == "").
      Project level: documented defaults (SHAPE.md), BVER/LGEN/VERS -> None.
   3. Problem positions are FLAT CHUNK INDEXES in the stream being parsed
      (header chunk SVOX/SSYN = 0), the same unit as layout "extra_chunks".
      Problems inside a slot are prefixed "modules[i]: " / "patterns[i]: " /
      "module: " (synth); nested containers add "payload.project: " /
      "payload.effect: " and their positions refer to the nested stream.
   4. Hard DecodeError: bad framing, first chunk not an EMPTY SVOX/SSYN chunk,
      stream ending inside a slot, a fixed-size scalar chunk with another size
      (u32/i32 != 4, colour != 3, SLNK/SLnK not a multiple of 4), CHDT before
      any CHNM, CHFF/CHFR before any CHDT, a chunk of one slot kind (or a
      project header chunk) inside an open slot of another kind, a synth
      with zero or more than one module.  Everything else in SHAPE.md's list
      is a ``problems`` entry.
   5. Extra problem kinds beyond SHAPE.md's list (all only fire on
      non-documented input): "duplicate chunk", "unknown module type",
      "unexpected CHNM n for type t", "unexpected chunk in pattern clone".
   6. Dependent controllers (Y ``depends_on``): when the unit controller's
      CVAL is absent (old files have fewer CVALs) the unit's YAML default is
      used; an unknown unit value means "no offset".
   7. bool controllers decode to 1 if raw != 0 else 0 (SHAPE.md).  ``encode``
      derives CVALs from ``controllers`` (user-level view wins); when
      ``cvals_raw[i]`` is given and decodes to the same user value it is kept,
      so odd raws (bool 2) survive.  Without ``controllers``, ``cvals_raw`` is
      written as is.
   8. Options: ``options`` (logical view) is overlaid on ``options_raw``.
      options_raw None -> no options chunk, unless some option has a non-zero
      STORED value; then the documented 64-byte zero-padded record is written
      (D).  A record shorter than an option's byte reads 0 for it (L) and is a
      problem (SHAPE.md).
   9. Sample loop bitmap (D "bits 0-2 looping options", L "loop_sustain"):
      bits 0-1 loop_type, bit 2 loop_sustain (confirmed by sampler.sunsynth:
      0x05, 0x66).  Format bits 0x10/0x20, stereo 0x40 (D).  ``format`` /
      ``stereo`` come from CHFF when it is present and non-zero, else from the
      bitmap (L: CHFF 0 means "look elsewhere").  Rate: CHFR, else 44100 (D).
  10. The sample frame count (meta 0x00) and "max sample index + 1" (record
      0x1c) are derived on encode; they are not part of the value.
  11. Sampler record: ``note_samples`` = bytes [0x104, min(0x184, size)) as
      found (128 entries for a 0x190 record).  Fields past the end of a short
      record are None.  Everything else in the record (legacy sample map and
      envelopes 0x24-0xed, constants at 0xf4 and 0x100, reserved bytes) is
      opaque: not part of the value; ``encode`` writes D's constants / zeros.
      Same for sample meta byte 0x11, envelope bytes 0x05-0x07/0x10-0x13,
      CMID bytes 3, 6 (zero) and 7 (0xFF unset / 0xC8 set, D).
  12. Array payloads are decoded "as found" (len // element size elements);
      absent chunk -> YAML default (scalar default repeated, FMX zeros,
      MultiCtl mappings [0, 0x8000, 0, 0, 0, 0, 0, 0]).  Exception: MetaModule
      mappings shorter than 96 entries (D's legacy 64) are padded with [0, 0]
      to SHAPE.md's fixed 96.  ``encode`` omits an array equal to its YAML
      default (ground truth: drawn waveform "omitted when default"; SunVox
      does the same for the other arrays: multisynth-random*.sunsynth and
      fmx.sunsynth have none) -- the value still round-trips.  MetaModule
      mappings are always written.  A drawn waveform is written with CHFF 1
      and CHFR 44100 (ground truth).
  13. Strings: UTF-8 up to the first NUL, errors="surrogateescape" so that
      any byte string round-trips.  SNAM is truncated / zero-padded to 32.
  14. Canonical project header written by ``encode``: VERS BVER FLGS SFGS then
      D's table (FLGS/SFGS position taken from SunVox 2.x fixtures); TIME and
      REPS are always written.  Module-specific chunks ascend by CHNM
      (fixtures).  ``layout`` keys "slot_chunk", "terminate_links" and "omit"
      also apply to nested containers; "header_order" and "extra_chunks"
      apply to the outermost stream only.  "extra_chunks" are inserted in
      ascending position order so that each ends up AT its position.
  15. slot_chunk "always" with in_link_slots None writes 0 per link (-1 where
      the link is -1); in_links None (synth) never gets SLNK/SLnK.
  16. A pattern slot holding PPAR is a clone.  PDTA is cut into rows of
      ``tracks`` cells (last row may be short, single row when tracks is
      None/0); trailing bytes that do not fill a cell are dropped (problem).
  17. SZZZ is read as u32 (SHAPE.md "bit pattern"; D says signed, Y unsigned).
"""

from __future__ import annotations

import copy
import struct

from .spec import load_spec

__all__ = [
    "DecodeError",
    "Decoded",
    "parse_chunks",
    "build_chunks",
    "decode",
    "encode",
]


class DecodeError(Exception):
    """The byte stream is not a parseable SunVox container."""


class Decoded:
    """Result of :func:`decode`: ``value``, ``problems``, ``present``."""

    __slots__ = ("value", "problems", "present")

    def __init__(self, value, problems, present):
        self.value = value
        self.problems = problems
        self.present = present

    def __repr__(self):
        return "Decoded(kind=%r, problems=%d)" % (self.value.get("kind"), len(self.problems))

    def annotated(self):
        """Deep copy of ``value`` with ``_present`` merged in (DECISION 1)."""
        value = copy.deepcopy(self.value)
        _annotate(value, self.present)
        return value


def _annotate(value, present):
    if value["kind"] == "synth":
        _annotate_module(value["module"], present["module"])
        return
    value["_present"] = sorted(present["ids"])
    for pattern, record in zip(value["patterns"], present["patterns"]):
        if pattern is not None:
            pattern["_present"] = list(record["_present"])
    for module, record in zip(value["modules"], present["modules"]):
        if module is not None:
            _annotate_module(module, record)


def _annotate_module(module, record):
    module["_present"] = list(record["_present"])
    nested = record["nested"]
    if nested is not None:
        payload = module["payload"]
        inner = payload.get("project") if "project" in payload else payload.get("effect")
        if inner is not None:
            _annotate(inner, nested)


# ---------------------------------------------------------------------------
# Chunk framing (D "IFF-style containers": 4-byte id, LE uint32 length, blob,
# no padding).
# ---------------------------------------------------------------------------

_U32 = struct.Struct("<I")
_I32 = struct.Struct("<i")


def parse_chunks(data):
    """Split ``data`` into [(id, payload)].  Strict: raises DecodeError."""
    data = bytes(data)
    chunks = []
    pos = 0
    end = len(data)
    while pos < end:
        if pos + 8 > end:
            raise DecodeError("truncated chunk header at byte %d" % pos)
        cid = data[pos : pos + 4]
        (length,) = _U32.unpack_from(data, pos + 4)
        start = pos + 8
        if start + length > end:
            raise DecodeError(
                "chunk %s at byte %d: length %d beyond end of stream" % (_idstr(cid), pos, length)
            )
        chunks.append((cid, data[start : start + length]))
        pos = start + length
    return chunks


def build_chunks(chunks):
    """Inverse of :func:`parse_chunks`."""
    out = []
    for cid, payload in chunks:
        cid = _idbytes(cid)
        if len(cid) != 4:
            raise ValueError("chunk id must be 4 bytes: %r" % (cid,))
        out.append(cid)
        out.append(_U32.pack(len(payload)))
        out.append(bytes(payload))
    return b"".join(out)


def _idstr(cid):
    return cid.decode("latin-1") if isinstance(cid, (bytes, bytearray)) else str(cid)


def _idbytes(cid):
    return cid.encode("latin-1") if isinstance(cid, str) else bytes(cid)


# ---------------------------------------------------------------------------
# Scalar field codecs.  Each decoder gets (payload, id) and raises DecodeError
# on a size that cannot hold the documented type (DECISION 4).
# ---------------------------------------------------------------------------


def _need(payload, size, cid):
    if len(payload) != size:
        raise DecodeError("chunk %s: length %d, expected %d" % (_idstr(cid), len(payload), size))


def _dec_u32(payload, cid):
    _need(payload, 4, cid)
    return _U32.unpack(payload)[0]


def _dec_i32(payload, cid):
    _need(payload, 4, cid)
    return _I32.unpack(payload)[0]


def _dec_version(payload, cid):
    # D/SHAPE: LE uint32 0xMMmmrrbb, i.e. bytes b, r, m, M on disk -> [M, m, r, b]
    _need(payload, 4, cid)
    return [payload[3], payload[2], payload[1], payload[0]]


def _dec_rgb(payload, cid):
    _need(payload, 3, cid)
    return [payload[0], payload[1], payload[2]]


def _dec_cstring(payload, cid=None):
    # D "String encoding": UTF-8 C strings.  DECISION 13.
    nul = payload.find(b"\0")
    if nul >= 0:
        payload = payload[:nul]
    return payload.decode("utf-8", "surrogateescape")


def _dec_bytes(payload, cid=None):
    return bytes(payload)


def _dec_i32_list(payload, cid):
    # D SLNK "signed int32[n] ... optionally terminated with -1";
    # SHAPE: trailing -1 entries removed.
    if len(payload) % 4:
        raise DecodeError("chunk %s: length %d is not a multiple of 4" % (_idstr(cid), len(payload)))
    values = list(struct.unpack("<%di" % (len(payload) // 4), payload))
    while values and values[-1] == -1:
        values.pop()
    return values


def _enc_u32(value):
    return _U32.pack(value)


def _enc_i32(value):
    return _I32.pack(value)


def _enc_version(value):
    major, minor, rev, build = value
    return bytes([build, rev, minor, major])


def _enc_rgb(value):
    return bytes(value)


def _enc_cstring(value):
    return value.encode("utf-8", "surrogateescape") + b"\0"


def _enc_bytes(value):
    return bytes(value)


_DECODERS = {
    "I": _dec_u32,
    "i": _dec_i32,
    "version": _dec_version,
    "rgb": _dec_rgb,
    "cstring": _dec_cstring,
    "bytes": _dec_bytes,
    "links": _dec_i32_list,
}
_ENCODERS = {
    "I": _enc_u32,
    "i": _enc_i32,
    "version": _enc_version,
    "rgb": _enc_rgb,
    "cstring": _enc_cstring,
    "bytes": _enc_bytes,
}

# ---------------------------------------------------------------------------
# Chunk tables.  One row per chunk: (id, value key, codec, default-if-absent).
# ---------------------------------------------------------------------------

# D "Project chunks" table, row order = documented order.  Defaults: Y
# ``chunks.*.default`` as restated by SHAPE.md (cursor chunks: SHAPE says 0).
PROJECT_TABLE = (
    (b"VERS", "sunvox_version", "version", None),  # D
    (b"BVER", "based_on_version", "version", None),  # D; SHAPE: None when absent
    (b"BPM ", "initial_bpm", "I", 125),  # D; Y default 125
    (b"SPED", "initial_tpl", "I", 6),  # D; Y default 6
    (b"TGRD", "time_grid", "I", 4),  # D; Y default 4
    (b"TGD2", "time_grid2", "I", 4),  # D; Y default 4
    (b"GVOL", "global_volume", "I", 80),  # D; Y default 80
    (b"NAME", "name", "cstring", ""),  # D
    (b"MSCL", "modules_scale", "I", 256),  # D; Y default 256
    (b"MZOO", "modules_zoom", "I", 256),  # D; Y default 256
    (b"MXOF", "modules_x_offset", "i", 0),  # D
    (b"MYOF", "modules_y_offset", "i", 0),  # D
    (b"LMSK", "modules_layer_mask", "I", 0),  # D
    (b"CURL", "modules_current_layer", "I", 0),  # D
    (b"TIME", "timeline_position", "i", 0),  # D; SHAPE: 0 if absent
    (b"REPS", "restart_position", "i", 0),  # D; SHAPE: 0 if absent
    (b"SELS", "selected_module", "I", 0),  # D
    (b"LGEN", "selected_generator", "I", None),  # D; SHAPE: absent -> None
    (b"PATN", "current_pattern", "I", 0),  # D
    (b"PATT", "current_track", "I", 0),  # D
    (b"PATL", "current_line", "I", 0),  # D (Y wrongly says PATN)
)
_PROJECT_ROWS = {row[0]: row for row in PROJECT_TABLE}
_PROJECT_RANK = {row[0]: rank for rank, row in enumerate(PROJECT_TABLE)}
# Y/P/L: FLGS = project flags, SFGS = sync flags; "may appear anywhere in the
# header" (SHAPE ground truth) so they carry no rank.
_PROJECT_IDS = frozenset(_PROJECT_RANK) | {b"FLGS", b"SFGS"}

# D "Patterns" table, row order = documented order.
PATTERN_TABLE = (
    (b"PDTA", "cells", "bytes"),
    (b"PNME", "name", "cstring"),
    (b"PCHN", "tracks", "I"),
    (b"PLIN", "lines", "I"),
    (b"PYSZ", "y_size", "I"),
    (b"PFLG", "flags_PFLG", "I"),
    (b"PICO", "icon", "bytes"),
    (b"PFGC", "fg_color", "rgb"),
    (b"PBGC", "bg_color", "rgb"),
    (b"PFFF", "flags_PFFF", "I"),
    (b"PXXX", "x", "i"),
    (b"PYYY", "y", "i"),
)
# D "Pattern clones" table.
CLONE_TABLE = (
    (b"PPAR", "source", "I"),
    (b"PFFF", "flags_PFFF", "I"),
    (b"PXXX", "x", "i"),
    (b"PYYY", "y", "i"),
)
_PATTERN_ROWS = {row[0]: row for row in PATTERN_TABLE}
_PATTERN_ROWS[b"PPAR"] = CLONE_TABLE[0]
_PATTERN_RANK = {row[0]: rank for rank, row in enumerate(PATTERN_TABLE)}
_PATTERN_RANK[b"PPAR"] = 0  # first row of the clone table
_CLONE_IDS = frozenset(row[0] for row in CLONE_TABLE)
_PATTERN_IDS = frozenset(_PATTERN_RANK) | {b"PEND"}

# D "Module chunks" table, row order = documented order.  SLnK directly after
# SLNK (L, P).  SMII is split into two keys, see _decode_module.
MODULE_TABLE = (
    (b"SFFF", "flags", "I"),
    (b"SNAM", "name", "name32"),
    (b"STYP", "type", "cstring"),
    (b"SFIN", "finetune", "i"),
    (b"SREL", "relative_note", "i"),
    (b"SXXX", "x", "i"),
    (b"SYYY", "y", "i"),
    (b"SZZZ", "layer", "I"),  # DECISION 17
    (b"SSCL", "scale", "I"),
    (b"SVPR", "visualization", "I"),
    (b"SCOL", "color", "rgb"),
    (b"SMII", None, "smii"),
    (b"SMIN", "midi_out_name", "cstring"),
    (b"SMIC", "midi_out_channel", "I"),
    (b"SMIB", "midi_out_bank", "i"),
    (b"SMIP", "midi_out_program", "i"),
    (b"SLNK", "in_links", "links"),
    (b"SLnK", "in_link_slots", "links"),
)
_MODULE_ROWS = {row[0]: row for row in MODULE_TABLE}
_MODULE_RANK = {row[0]: rank for rank, row in enumerate(MODULE_TABLE)}
_next = len(MODULE_TABLE)
_MODULE_RANK[b"CVAL"] = _next
_MODULE_RANK[b"CMID"] = _next + 1
_MODULE_RANK[b"CHNK"] = _next + 2
for _cid in (b"CHNM", b"CHDT", b"CHFF", b"CHFR"):  # D "Module-specific chunks"
    _MODULE_RANK[_cid] = _next + 3
_MODULE_IDS = frozenset(_MODULE_RANK) | {b"SEND"}

# Key order of a decoded module (SHAPE.md "module").
_MODULE_KEYS = (
    "type", "name", "flags", "finetune", "relative_note", "x", "y", "layer",
    "scale", "visualization", "color", "midi_in_always", "midi_in_channel",
    "midi_out_name", "midi_out_channel", "midi_out_bank", "midi_out_program",
    "in_links", "in_link_slots", "controllers", "cvals_raw", "cmid", "options",
    "options_raw", "chnk", "payload",
)  # fmt: skip

# ---------------------------------------------------------------------------
# Module-type specific tables
# ---------------------------------------------------------------------------

# Array payloads: type string -> ((payload key, CHNM, element code, length)).
# Element codes: b int8, B uint8, H uint16, f float32, 8I row of 8 uint32 (Y).
_ARRAYS = {
    "Analog generator": (("drawn_waveform", 0, "b", 32),),  # D CHNM 0, 32 x int8
    "Generator": (("drawn_waveform", 0, "b", 32),),  # D CHNM 0
    "FMX": (("custom_waveform", 0, "f", 256),),  # Y
    "MultiSynth": (
        ("nv_curve", 0, "B", 128),  # D, Y note_velocity_curve
        ("vv_curve", 2, "B", 257),  # D, Y velocity_velocity_curve
        ("np_curve", 3, "H", 128),  # Y note_pitch_curve
    ),
    "SpectraVoice": (
        ("harmonic_freqs", 0, "H", 16),  # D (Y has no length)
        ("harmonic_volumes", 1, "B", 16),  # D
        ("harmonic_widths", 2, "B", 16),  # D
        ("harmonic_types", 3, "B", 16),  # D
    ),
    "WaveShaper": (("curve", 0, "H", 256),),  # D, Y
    "MultiCtl": (
        ("mappings", 0, "8I", 16),  # D (32-byte rows), Y unsigned int32[8]
        ("curve", 1, "H", 257),  # D, Y
    ),
}
_ELEMENT_SIZE = {"b": 1, "B": 1, "H": 2, "f": 4, "8I": 32}
_DRAWN_WAVEFORM_TYPES = ("Analog generator", "Generator")

_METAMODULE_MAPPINGS = 96  # Y MetaModuleMappings.length (D's 64 is stale, SHAPE)
_METAMODULE_LABEL_BASE = 8  # D "CHNM 8+n"

# D "Sampler module-specific chunks"
_SAMPLER_RECORD_SIZE = 0x190  # D + S (0x184..0x18f), SHAPE
_SAMPLER_META_SIZE = 44  # D + S, SHAPE
_SAMPLER_MAX_SAMPLE_CHNM = 0x100  # 128 sample slots: CHNM 1..0x100 (below options 0x101)
_SAMPLER_EFFECT_CHNM = 0x10A  # D
_SAMPLER_ENVELOPES = (  # D: (CHNM, key, range minimum)
    (0x102, "volume", 0),
    (0x103, "panning", -0x4000),  # P: y stored as y - minimum
    (0x104, "pitch", -0x4000),
    (0x105, "effect1", 0),
    (0x106, "effect2", 0),
    (0x107, "effect3", 0),
    (0x108, "effect4", 0),
)
_ENVELOPE_HEADER = 0x14  # D "Sample envelope chunk"

_ARRAY_DEFAULT_CACHE = {}


def _array_defaults(spec, type_string):
    """{payload key: default list} for a type, from Y (DECISION 12)."""
    cache_key = (spec.path, type_string)
    cached = _ARRAY_DEFAULT_CACHE.get(cache_key)
    if cached is not None:
        return cached
    tspec = spec.by_type_string.get(type_string)
    by_chnm = {c.chnm: c for c in (tspec.chunks if tspec else ())}
    result = {}
    for key, chnm, code, length in _ARRAYS.get(type_string, ()):
        cspec = by_chnm.get(chnm)
        default = cspec.default if cspec is not None else None
        if code == "8I":
            # Y MultiCtl mappings: default is a dict over ``elements``.
            names = list(cspec.elements or ()) if cspec is not None else []
            row = [0] * 8
            if isinstance(default, dict):
                for i, name in enumerate(names[:8]):
                    row[i] = int(default.get(name, 0))
            values = [list(row) for _ in range(length)]
        elif isinstance(default, list):
            enum = tspec.enums.get(cspec.enum_name) if cspec.enum_name else None
            values = [int(enum[str(v)]) if isinstance(v, str) and enum else v for v in default]
        elif default is None:
            values = [0] * length
        else:
            values = [default] * length
        if code == "b":
            # Y lists the drawn waveform as unsigned bytes; SHAPE wants int8.
            values = [v - 256 if v > 127 else v for v in values]
        if code == "f":
            values = [float(v) for v in values]
        result[key] = values
    _ARRAY_DEFAULT_CACHE[cache_key] = result
    return result


def _copy_array(values):
    return [list(v) if isinstance(v, list) else v for v in values]


def _unpack_array(code, data):
    size = _ELEMENT_SIZE[code]
    count = len(data) // size
    if code == "8I":
        flat = struct.unpack("<%dI" % (count * 8), data[: count * 32])
        return [list(flat[i * 8 : i * 8 + 8]) for i in range(count)]
    return list(struct.unpack("<%d%s" % (count, code), data[: count * size]))


def _pack_array(code, values):
    if code == "8I":
        flat = [v for row in values for v in row]
        return struct.pack("<%dI" % len(flat), *flat)
    return struct.pack("<%d%s" % (len(values), code), *values)


# ---------------------------------------------------------------------------
# Controllers (D CVAL; value mapping per SHAPE.md "controllers")
# ---------------------------------------------------------------------------


def _controller_rule(tspec, type_string, index, get_raw):
    """Return (name, mode, offset) for CVAL number ``index`` (0-based).

    mode: "raw" (value = raw), "bool" (value = 0/1), "offset" (value = raw +
    offset).  ``get_raw(j)`` gives the raw value of controller j or None.
    """
    if tspec is None or index >= len(tspec.controllers):
        if type_string == "MetaModule" and index >= 5:
            return "user_defined_%d" % (index - 4), "raw", 0  # SHAPE: k = index - 4
        return "#%d" % index, "raw", 0  # SHAPE: extras are ["#<index>", raw]
    ctl = tspec.controllers[index]
    kind = ctl.kind
    if kind == "enum" or kind == "no_offset":
        return ctl.name, "raw", 0
    if kind == "bool":
        return ctl.name, "bool", 0
    if kind == "dependent":
        offset = 0
        unit = tspec.controllers_by_name.get(ctl.depends_on)
        if unit is not None:
            unit_value = get_raw(unit.index)
            if unit_value is None:
                unit_value = unit.default_value  # DECISION 6
            for member, value in (unit.enum or {}).items():
                if value == unit_value:
                    bounds = (ctl.ranges or {}).get(member)
                    if bounds is not None and bounds[0] < 0:
                        offset = bounds[0]
                    break
        return ctl.name, "offset", offset
    # "range" and "compact": SHAPE "range with min < 0 (incl. compact) -> raw + min"
    offset = ctl.min if ctl.min is not None and ctl.min < 0 else 0
    return ctl.name, "offset", offset


def _decode_controllers(tspec, type_string, raws):
    def get_raw(j):
        return raws[j] if 0 <= j < len(raws) else None

    controllers = []
    for index, raw in enumerate(raws):
        name, mode, offset = _controller_rule(tspec, type_string, index, get_raw)
        if mode == "bool":
            value = 1 if raw else 0
        elif mode == "offset":
            value = raw + offset
        else:
            value = raw
        controllers.append([name, value])
    return controllers


def _encode_controllers(tspec, type_string, controllers, cvals_raw):
    """Raw CVAL list for ``controllers`` (DECISION 7)."""
    if controllers is None:
        return list(cvals_raw or [])

    def get_raw(j):
        # Unit controllers are enums: user value == raw value.
        return controllers[j][1] if 0 <= j < len(controllers) else None

    raws = []
    for index, (_name, value) in enumerate(controllers):
        _n, mode, offset = _controller_rule(tspec, type_string, index, get_raw)
        kept = cvals_raw[index] if cvals_raw is not None and index < len(cvals_raw) else None
        if mode == "bool":
            raw = 1 if value else 0
            if kept is not None and (1 if kept else 0) == raw:
                raw = kept
        elif mode == "offset":
            raw = value - offset
        else:
            raw = value
        raws.append(raw)
    return raws


# ---------------------------------------------------------------------------
# Options (D "Options chunks", Y options byte/bit/size/inverted)
# ---------------------------------------------------------------------------


def _option_is_inverted(opt):
    # SHAPE: "inverted 1-bit options presented as 1 - stored".
    return opt.inverted and opt.size == 1


def _decode_options(tspec, raw, problems):
    options = {}
    if tspec is None or not tspec.options:
        return options
    data = raw if raw is not None else b""
    highest = max(opt.byte for opt in tspec.options)
    if raw is not None and len(raw) < highest + 1:
        problems.append(
            "options record length %d shorter than highest option byte + 1 (%d)"
            % (len(raw), highest + 1)
        )
    for opt in tspec.options:
        byte = data[opt.byte] if opt.byte < len(data) else 0  # L: missing bytes read 0
        stored = (byte >> opt.bit) & ((1 << opt.size) - 1)
        options[opt.name] = 1 - stored if _option_is_inverted(opt) else stored
    return options


def _encode_options(tspec, options, raw):
    """Options record bytes, or None for "no options chunk" (DECISION 8)."""
    if tspec is None or not tspec.options:
        return bytes(raw) if raw is not None else None
    stored_values = []
    for opt in tspec.options:
        if options is None or opt.name not in options:
            continue
        logical = int(options[opt.name])
        stored = 1 - logical if _option_is_inverted(opt) else logical
        stored_values.append((opt, stored & ((1 << opt.size) - 1)))
    if raw is None:
        if not any(stored for _opt, stored in stored_values):
            return None
        record = bytearray(64)  # D: "padded with zeros to 64 bytes"
    else:
        record = bytearray(raw)
    for opt, stored in stored_values:
        if opt.byte >= len(record):
            if stored == 0:
                continue  # reads back as 0 anyway; keep the record length
            record.extend(bytes(opt.byte + 1 - len(record)))
        mask = ((1 << opt.size) - 1) << opt.bit
        record[opt.byte] = (record[opt.byte] & ~mask & 0xFF) | ((stored << opt.bit) & mask)
    return bytes(record)


# ---------------------------------------------------------------------------
# Decoder
# ---------------------------------------------------------------------------


def decode(data):
    """Decode a .sunvox / .sunsynth byte string (strict, see SHAPE.md)."""
    chunks = parse_chunks(data)
    if not chunks:
        raise DecodeError("empty stream")
    head_id, head_payload = chunks[0]
    if head_id not in (b"SVOX", b"SSYN"):
        raise DecodeError("first chunk is %s, expected SVOX or SSYN" % _idstr(head_id))
    if head_payload:
        # D: "Empty chunk of type SVOX / SSYN" (a non-empty SVOX is a .sunpat)
        raise DecodeError("header chunk %s is not empty" % _idstr(head_id))
    spec = load_spec()
    if head_id == b"SVOX":
        value, problems, present = _decode_project(spec, chunks)
    else:
        value, problems, present = _decode_synth(spec, chunks)
    return Decoded(value, problems, present)


def _order_check(rank_table, cid, pos, state, problems, seen):
    """Documented-order and duplicate check for one-per-slot chunks."""
    rank = rank_table.get(cid)
    if rank is None:
        return
    if rank < state[0]:
        problems.append("chunk %s out of order at %d" % (_idstr(cid), pos))
    else:
        state[0] = rank
    if seen is not None:
        if cid in seen:
            problems.append("duplicate chunk %s at %d" % (_idstr(cid), pos))
        seen.add(cid)


def _decode_project(spec, chunks):
    value = {"kind": "project"}
    for _cid, key, _codec, default in PROJECT_TABLE[:2]:
        value[key] = default
    value["flags"] = 0  # SHAPE: FLGS 0 when absent
    value["receive_sync_midi"] = 1  # SHAPE: 1 when SFGS absent
    value["receive_sync_other"] = 1
    for _cid, key, _codec, default in PROJECT_TABLE[2:]:
        value[key] = default
    patterns = []
    modules = []
    patterns_present = []
    modules_present = []
    problems = []
    ids = set()
    seen = set()
    order = [0]
    section = 0  # 0 = header, 1 = patterns, 2 = modules
    slot_kind = None
    slot = []

    for pos in range(1, len(chunks)):
        cid, payload = chunks[pos]
        if cid in _PROJECT_IDS:
            if slot_kind is not None:
                raise DecodeError(
                    "project chunk %s at %d inside an open %s slot" % (_idstr(cid), pos, slot_kind)
                )
            ids.add(_idstr(cid))
            if cid == b"FLGS":
                value["flags"] = _dec_u32(payload, cid)  # Y ProjectFlags
                continue
            if cid == b"SFGS":
                sync = _dec_u32(payload, cid)
                value["receive_sync_midi"] = sync & 7  # SHAPE: bits 0-2
                value["receive_sync_other"] = (sync >> 3) & 7  # SHAPE: bits 3-5
                continue
            if section > 0:
                problems.append("chunk %s out of order at %d" % (_idstr(cid), pos))
                if cid in seen:
                    problems.append("duplicate chunk %s at %d" % (_idstr(cid), pos))
                seen.add(cid)
            else:
                _order_check(_PROJECT_RANK, cid, pos, order, problems, seen)
            _c, key, codec, _d = _PROJECT_ROWS[cid]
            value[key] = _DECODERS[codec](payload, cid)
        elif cid in _PATTERN_IDS:
            if slot_kind == "module":
                raise DecodeError("pattern chunk %s at %d inside a module slot" % (_idstr(cid), pos))
            if section == 2:
                problems.append("chunk %s out of order at %d" % (_idstr(cid), pos))
            section = max(section, 1)
            if cid == b"PEND":
                index = len(patterns)
                pattern, sub, record = _decode_pattern(slot)
                patterns.append(pattern)
                patterns_present.append(record)
                problems.extend("patterns[%d]: %s" % (index, p) for p in sub)
                slot_kind = None
                slot = []
            else:
                slot_kind = "pattern"
                slot.append((pos, cid, payload))
        elif cid in _MODULE_IDS:
            if slot_kind == "pattern":
                raise DecodeError("module chunk %s at %d inside a pattern slot" % (_idstr(cid), pos))
            section = 2
            if cid == b"SEND":
                index = len(modules)
                module, sub, record = _decode_module(spec, slot)
                modules.append(module)
                modules_present.append(record)
                problems.extend("modules[%d]: %s" % (index, p) for p in sub)
                slot_kind = None
                slot = []
            else:
                slot_kind = "module"
                slot.append((pos, cid, payload))
        else:
            # SHAPE: unknown ids are tolerated anywhere and reported.
            problems.append("unknown chunk %s at %d" % (_idstr(cid), pos))

    if slot_kind == "pattern":
        raise DecodeError("stream ends inside a pattern slot (no PEND)")
    if slot_kind == "module":
        raise DecodeError("stream ends inside a module slot (no SEND)")

    while modules and modules[-1] is None:  # SHAPE: trailing None entries removed
        modules.pop()
        modules_present.pop()
    value["patterns"] = patterns
    value["modules"] = modules
    present = {"ids": ids, "patterns": patterns_present, "modules": modules_present}
    return value, problems, present


def _decode_synth(spec, chunks):
    # D "sunsynth": SSYN, VERS, module chunks (closed by SEND as in fixtures).
    version = None
    problems = []
    ids = set()
    slot = []
    open_slot = False
    result = None
    for pos in range(1, len(chunks)):
        cid, payload = chunks[pos]
        if cid == b"VERS":
            if open_slot:
                raise DecodeError("chunk VERS at %d inside the module slot" % pos)
            if result is not None:
                problems.append("chunk VERS out of order at %d" % pos)
            if version is not None:
                problems.append("duplicate chunk VERS at %d" % pos)
            ids.add("VERS")
            version = _dec_version(payload, cid)
        elif cid in _MODULE_IDS:
            if result is not None:
                raise DecodeError("more than one module in a synth (chunk %s at %d)" % (_idstr(cid), pos))
            if cid == b"SEND":
                result = _decode_module(spec, slot)
                if result[0] is None:
                    raise DecodeError("synth holds an empty module slot")
                open_slot = False
            else:
                open_slot = True
                slot.append((pos, cid, payload))
        elif cid in _PATTERN_IDS or cid in _PROJECT_IDS:
            raise DecodeError("chunk %s at %d does not belong in a synth" % (_idstr(cid), pos))
        else:
            problems.append("unknown chunk %s at %d" % (_idstr(cid), pos))
    if open_slot:
        raise DecodeError("stream ends inside a module slot (no SEND)")
    if result is None:
        raise DecodeError("synth without a module")
    module, sub, record = result
    problems.extend("module: %s" % p for p in sub)
    value = {"kind": "synth", "version": version, "module": module}
    return value, problems, {"ids": ids, "module": record}


def _decode_pattern(slot):
    """One pattern slot (chunks before PEND) -> (value | None, problems, present)."""
    if not slot:
        return None, [], None  # D: "the only chunk present will be PEND"
    problems = []
    raw = {}
    seen = set()
    order = [0]
    is_clone = any(cid == b"PPAR" for _pos, cid, _payload in slot)
    for pos, cid, payload in slot:
        _order_check(_PATTERN_RANK, cid, pos, order, problems, seen)
        if is_clone and cid not in _CLONE_IDS:
            problems.append("unexpected chunk %s in pattern clone at %d" % (_idstr(cid), pos))
            continue
        _c, key, codec = _PATTERN_ROWS[cid]
        raw[key] = _DECODERS[codec](payload, cid)
    present = {"_present": sorted(_idstr(cid) for cid in seen)}
    if is_clone:
        value = {"kind": "clone"}
        for _cid, key, _codec in CLONE_TABLE:
            value[key] = raw.get(key)
        return value, problems, present

    value = {"kind": "pattern"}
    for key in ("name", "tracks", "lines", "y_size", "flags_PFLG", "icon",
                "fg_color", "bg_color", "flags_PFFF", "x", "y"):  # fmt: skip
        value[key] = raw.get(key)
    data = raw.get("cells")
    if data is None:
        value["cells"] = None
        return value, problems, present
    tracks = value["tracks"]
    lines = value["lines"]
    if tracks is None or lines is None or len(data) != lines * tracks * 8:
        problems.append(
            "PDTA length %d != lines*tracks*8 (%r*%r*8)" % (len(data), lines, tracks)
        )
    # D "Notes" 8-byte structure; SHAPE/P: "<BBHHH" note, vel, module, ctl, val
    count = len(data) // 8
    flat = struct.unpack("<" + "BBHHH" * count, data[: count * 8])
    cells = [list(flat[i * 5 : i * 5 + 5]) for i in range(count)]
    width = tracks if tracks else max(count, 1)  # DECISION 16
    value["cells"] = [cells[i : i + width] for i in range(0, count, width)]
    return value, problems, present


def _decode_module(spec, slot):
    """One module slot (chunks before SEND) -> (value | None, problems, present)."""
    if not slot:
        return None, [], None  # D: "the only chunk present will be SEND"
    problems = []
    raw = {}
    seen = set()
    order = [0]
    cvals = []
    cmid_payload = None
    chnk = None
    mchunks = {}  # CHNM number -> {"data", "format", "rate"}
    current_chnm = None
    last_data = None

    for pos, cid, payload in slot:
        if cid == b"CVAL":
            _order_check(_MODULE_RANK, cid, pos, order, problems, None)
            seen.add(cid)
            cvals.append(_dec_i32(payload, cid))  # L: controller values are signed
        elif cid == b"CMID":
            _order_check(_MODULE_RANK, cid, pos, order, problems, seen)
            cmid_payload = payload
        elif cid == b"CHNK":
            _order_check(_MODULE_RANK, cid, pos, order, problems, seen)
            chnk = _dec_u32(payload, cid)
        elif cid == b"CHNM":
            _order_check(_MODULE_RANK, cid, pos, order, problems, None)
            seen.add(cid)
            current_chnm = _dec_u32(payload, cid)
            last_data = None
            # SHAPE: "a CHNM >= CHNK (or CHNM present without CHNK)"
            if chnk is None:
                problems.append("CHNM %d present without CHNK at %d" % (current_chnm, pos))
            elif current_chnm >= chnk:
                problems.append("CHNM %d >= CHNK %d at %d" % (current_chnm, chnk, pos))
        elif cid == b"CHDT":
            seen.add(cid)
            if current_chnm is None:
                raise DecodeError("CHDT at %d without a preceding CHNM" % pos)
            last_data = {"data": payload, "format": None, "rate": None}
            mchunks[current_chnm] = last_data
        elif cid == b"CHFF" or cid == b"CHFR":
            seen.add(cid)
            if last_data is None:
                raise DecodeError("%s at %d without a preceding CHDT" % (_idstr(cid), pos))
            last_data["format" if cid == b"CHFF" else "rate"] = _dec_u32(payload, cid)
        else:
            _order_check(_MODULE_RANK, cid, pos, order, problems, seen)
            _c, key, codec = _MODULE_ROWS[cid]
            if codec == "smii":
                midi_in = _dec_u32(payload, cid)
                raw["midi_in_always"] = bool(midi_in & 1)  # D "MIDI in": bit 0
                raw["midi_in_channel"] = midi_in >> 1  # D: remaining bits
            elif codec == "name32":
                if len(payload) != 32:  # D "string[32]"
                    problems.append("SNAM length %d != 32" % len(payload))
                raw[key] = _dec_cstring(payload)
            else:
                raw[key] = _DECODERS[codec](payload, cid)

    module = dict.fromkeys(_MODULE_KEYS)
    module.update(raw)
    if module["type"] is None:
        module["type"] = "Output"  # D: STYP "not present for Output module"
    if module["midi_out_name"] is None:
        module["midi_out_name"] = ""  # D: SMIN "not present if none selected"
    type_string = module["type"]
    tspec = spec.by_type_string.get(type_string)
    if tspec is None:
        problems.append("unknown module type %r" % type_string)

    module["cvals_raw"] = cvals
    module["controllers"] = _decode_controllers(tspec, type_string, cvals)
    if cmid_payload is not None:
        # D "Controller MIDI mappings": 8 bytes per controller, in ONE chunk.
        count = len(cmid_payload) // 8
        if len(cmid_payload) != 8 * len(cvals):
            problems.append("number of CVAL %d != CMID length %d / 8" % (len(cvals), len(cmid_payload)))
        for i in range(count):
            rec = cmid_payload[8 * i: 8 * i + 8]
            # D "Controller MIDI mappings": 0x03 and 0x06 reserved zero bytes; 0x07 is 0xff if the message type is unset,
            # 0xc8 otherwise
            want7 = 0xFF if rec[0] == 0 else 0xC8
            if rec[3] != 0 or rec[6] != 0 or rec[7] != want7:
                problems.append("CMID record %d: reserved/marker bytes %02x %02x %02x (documented 00 00 %02x)"
                                % (i, rec[3], rec[6], rec[7], want7))
        module["cmid"] = [
            list(struct.unpack_from("<BBBxHxx", cmid_payload, 8 * i)) for i in range(count)
        ]
    module["chnk"] = chnk

    options_raw = None
    if tspec is not None and tspec.options and tspec.options_chnm in mchunks:
        options_raw = bytes(mchunks[tspec.options_chnm]["data"])
    module["options_raw"] = options_raw
    module["options"] = _decode_options(tspec, options_raw, problems)

    payload_value, nested_present, expected = _decode_payload(spec, type_string, tspec, mchunks, problems)
    module["payload"] = payload_value
    for number in sorted(mchunks):
        if number not in expected:
            problems.append("unexpected CHNM %d for type %r" % (number, type_string))

    present = {
        "_present": sorted(_idstr(cid) for cid in seen),
        "chnm": sorted(mchunks),
        "nested": nested_present,
    }
    return module, problems, present


def _decode_nested(data, label, problems):
    """Decode an embedded container (D: "parsed as a separate container")."""
    try:
        inner = decode(data)
    except DecodeError as error:
        raise DecodeError("%s: %s" % (label, error)) from None
    problems.extend("%s: %s" % (label, p) for p in inner.problems)
    return inner.value, inner.present


def _decode_payload(spec, type_string, tspec, mchunks, problems):
    """Type specific payload -> (payload dict, nested present, expected CHNMs)."""
    expected = set()
    if tspec is not None and tspec.options:
        expected.add(tspec.options_chnm)
    payload = {}
    nested_present = None

    arrays = _ARRAYS.get(type_string)
    if arrays:
        defaults = _array_defaults(spec, type_string)
        for key, chnm, code, _length in arrays:
            expected.add(chnm)
            chunk = mchunks.get(chnm)
            if chunk is None:
                payload[key] = _copy_array(defaults[key])  # DECISION 12
            else:
                payload[key] = _unpack_array(code, chunk["data"])
        return payload, None, expected

    if type_string == "Vorbis player":
        expected.add(0)  # D "Vorbis player file data chunk (CHNM 0)"
        chunk = mchunks.get(0)
        payload["data"] = bytes(chunk["data"]) if chunk is not None else b""
        return payload, None, expected

    if type_string == "MetaModule":
        chunk = mchunks.get(0)  # D "embedded project (CHNM 0)"
        expected.add(0)
        payload["project"] = None
        if chunk is not None and chunk["data"]:
            payload["project"], nested_present = _decode_nested(chunk["data"], "payload.project", problems)
        chunk = mchunks.get(1)  # D/Y "user defined controller mappings (CHNM 1)"
        expected.add(1)
        mappings = []
        if chunk is not None:
            count = len(chunk["data"]) // 4
            flat = struct.unpack("<%dH" % (count * 2), chunk["data"][: count * 4])
            mappings = [[flat[2 * i], flat[2 * i + 1]] for i in range(count)]
        while len(mappings) < _METAMODULE_MAPPINGS:  # DECISION 12
            mappings.append([0, 0])
        payload["mappings"] = mappings
        labels = {}
        for number in sorted(mchunks):  # D "controller names (CHNM 8+n)"
            index = number - _METAMODULE_LABEL_BASE
            if 0 <= index < _METAMODULE_MAPPINGS:
                expected.add(number)
                labels[index] = _dec_cstring(mchunks[number]["data"])
        payload["labels"] = labels
        return payload, nested_present, expected

    if type_string == "Sampler":
        nested_present = _decode_sampler(mchunks, payload, expected, problems)
        return payload, nested_present, expected

    return payload, None, expected


def _field(data, fmt, offset):
    size = struct.calcsize(fmt)
    if offset + size > len(data):
        return None
    return struct.unpack_from(fmt, data, offset)[0]


def _decode_sampler(mchunks, payload, expected, problems):
    # ---- samples: CHNM 2i+1 = configuration, CHNM 2i+2 = waveform (D) ----
    samples = {}
    indexes = sorted({(n - 1) // 2 for n in mchunks if 1 <= n <= _SAMPLER_MAX_SAMPLE_CHNM})
    for index in indexes:
        meta_chunk = mchunks.get(2 * index + 1)
        data_chunk = mchunks.get(2 * index + 2)
        meta = bytes(meta_chunk["data"]) if meta_chunk is not None else b""
        if meta_chunk is not None and len(meta) != _SAMPLER_META_SIZE:
            problems.append("sample %d meta size %d != 44" % (index, len(meta)))
        padded = meta.ljust(_SAMPLER_META_SIZE, b"\0")
        # D "Sample configuration chunk" 0x00-0x10; S: 0x12 name[22], 0x28 start_pos
        (_frames, loop_start, loop_len, volume, finetune, bitmap, panning, relative_note) = (
            struct.unpack_from("<IIIBbBBb", padded, 0)
        )
        fmt = {0x00: 1, 0x10: 2, 0x20: 4}.get(bitmap & 0x30, 1)  # D "Bits 3-5" values
        stereo = bool(bitmap & 0x40)  # D "Bit 6"
        rate = 44100  # D: CHFR default
        if data_chunk is not None:
            if data_chunk["format"]:  # DECISION 9
                # both encodings of the sample format are documented (bitmap bits 3-6 of the configuration
                # chunk, CHFF of the waveform chunk): a writer must keep them in agreement
                if meta_chunk is not None and (fmt, stereo) != (data_chunk["format"] & 7, bool(data_chunk["format"] & 8)):
                    problems.append("sample %d: format bitmap says format %d stereo %s but CHFF says %d" % (
                        index, fmt, stereo, data_chunk["format"]))
                fmt = data_chunk["format"] & 7  # D "first 3 bits specify the format"
                stereo = bool(data_chunk["format"] & 8)  # D "4th bit is a stereo flag"
            if data_chunk["rate"] is not None:
                rate = data_chunk["rate"]
        samples[index] = {
            "data": bytes(data_chunk["data"]) if data_chunk is not None else b"",
            "format": fmt,
            "stereo": stereo,
            "rate": rate,
            "loop_start": loop_start,
            "loop_len": loop_len,  # L: "Renames Sample.loop_end to Sample.loop_len"
            "volume": volume,
            "finetune": finetune,
            "loop_type": bitmap & 3,  # DECISION 9
            "loop_sustain": bool(bitmap & 4),  # DECISION 9
            "panning": panning - 128,  # SHAPE: stored - 128
            "relative_note": relative_note,
            "name": padded[0x12:0x28].rstrip(b"\0"),
            "start_pos": struct.unpack_from("<I", padded, 0x28)[0],
            "meta_size": len(meta),
        }
    expected.update(range(1, _SAMPLER_MAX_SAMPLE_CHNM + 1))
    payload["samples"] = samples

    # ---- envelopes: CHNM 0x102-0x108 (D "Sample envelope chunk") ----
    envelopes = {}
    for chnm, key, minimum in _SAMPLER_ENVELOPES:
        expected.add(chnm)
        chunk = mchunks.get(chnm)
        if chunk is None:
            continue  # SHAPE: "envelope missing from file -> key absent"
        data = bytes(chunk["data"])
        head = data.ljust(_ENVELOPE_HEADER, b"\0")
        flags, ctl_index, gain_pct, velocity = struct.unpack_from("<HBBB", head, 0)
        count, sustain_point, loop_start_point, loop_end_point = struct.unpack_from("<HHHH", head, 8)
        if len(data) != _ENVELOPE_HEADER + 4 * count:
            problems.append(
                "envelope %s size %d != 0x14 + 4*%d points" % (key, len(data), count)
            )
        available = max(0, (len(data) - _ENVELOPE_HEADER) // 4)
        count = min(count, available)
        flat = struct.unpack_from("<%dH" % (2 * count), data, _ENVELOPE_HEADER) if count else ()
        envelopes[key] = {
            "enable": bool(flags & 1),  # D "Sample envelope flags"
            "sustain": bool(flags & 2),
            "loop": bool(flags & 4),
            "ctl_index": ctl_index,
            "gain_pct": gain_pct,
            "velocity": velocity,
            "sustain_point": sustain_point,
            "loop_start_point": loop_start_point,
            "loop_end_point": loop_end_point,
            "points": [[flat[2 * i], flat[2 * i + 1] + minimum] for i in range(count)],
        }
    payload["envelopes"] = envelopes

    # ---- global configuration record: CHNM 0 (D offsets, S tail) ----
    expected.add(0)
    chunk = mchunks.get(0)
    if chunk is None:
        record = None
    else:
        record = bytes(chunk["data"])
        if len(record) != _SAMPLER_RECORD_SIZE:
            problems.append("Sampler record size %d != 400 (0x190)" % len(record))
    if record is None:
        payload["note_samples"] = None
        for key in ("vibrato_type", "vibrato_attack", "vibrato_depth", "vibrato_rate",
                    "volume_fadeout", "max_version", "editor_cursor", "editor_selected_size",
                    "record_size", "signature"):  # fmt: skip
            payload[key] = None
    else:
        payload["note_samples"] = list(record[0x104:0x184])  # D 0x104.. ; DECISION 11
        payload["vibrato_type"] = _field(record, "<B", 0xEE)  # D
        payload["vibrato_attack"] = _field(record, "<B", 0xEF)  # D
        payload["vibrato_depth"] = _field(record, "<B", 0xF0)  # D
        payload["vibrato_rate"] = _field(record, "<B", 0xF1)  # D
        payload["volume_fadeout"] = _field(record, "<H", 0xF2)  # D
        payload["max_version"] = _field(record, "<I", 0x184)  # S
        payload["editor_cursor"] = _field(record, "<i", 0x188)  # S
        payload["editor_selected_size"] = _field(record, "<i", 0x18C)  # S
        payload["record_size"] = len(record)
        payload["signature"] = record[0xFC:0x100]  # D: ASCII 'PMAS'
        # D 0x1c: "unsigned int32  Max sample index + 1 (0 for no samples)" -- a derived field (DECISION 10):
        # not part of the value, but it must agree with the sample chunks actually present.
        declared = _field(record, "<I", 0x1C)
        want = (max(samples) + 1) if samples else 0
        if declared is not None and declared != want:
            problems.append("Sampler record: max sample index + 1 is %d but the sample chunks give %d" % (declared, want))

    # ---- effect: CHNM 0x10A, an embedded .sunsynth (D) ----
    expected.add(_SAMPLER_EFFECT_CHNM)
    payload["effect"] = None
    nested_present = None
    chunk = mchunks.get(_SAMPLER_EFFECT_CHNM)
    if chunk is not None and chunk["data"]:
        payload["effect"], nested_present = _decode_nested(chunk["data"], "payload.effect", problems)
    return nested_present


# ---------------------------------------------------------------------------
# Encoder
# ---------------------------------------------------------------------------

_DEFAULT_LAYOUT = {
    "slot_chunk": "auto",
    "terminate_links": False,
    "omit": (),
    "header_order": None,
    "extra_chunks": (),
}


class _Writer:
    """Collects (id, payload) pairs, honouring layout "omit"."""

    def __init__(self, omit):
        self.omit = omit
        self.chunks = []

    def add(self, cid, payload=b""):
        if cid not in self.omit:
            self.chunks.append((cid, payload))


def encode(value, layout=None):
    """Encode a project / synth value (SHAPE.md) to bytes."""
    options = dict(_DEFAULT_LAYOUT)
    if layout:
        unknown = set(layout) - set(_DEFAULT_LAYOUT)
        if unknown:
            raise ValueError("unknown layout keys: %s" % sorted(unknown))
        options.update(layout)
    if options["slot_chunk"] not in ("auto", "always", "never"):
        raise ValueError("layout slot_chunk must be auto, always or never")
    options["omit"] = frozenset(_idbytes(cid) for cid in (options["omit"] or ()))
    chunks = _encode_container(load_spec(), value, options, outermost=True)
    extras = sorted(options["extra_chunks"] or (), key=lambda item: item[0])  # DECISION 14
    for position, cid, data in extras:
        chunks.insert(position, (_idbytes(cid), bytes(data)))
    return build_chunks(chunks)


def _encode_container(spec, value, options, outermost):
    writer = _Writer(options["omit"])
    kind = value["kind"]
    if kind == "project":
        _encode_project(spec, writer, value, options, outermost)
    elif kind == "synth":
        writer.add(b"SSYN")  # D "sunsynth" 1.
        if value["version"] is not None:
            writer.add(b"VERS", _enc_version(value["version"]))  # D "sunsynth" 2.
        _encode_module(spec, writer, value["module"], options)
        writer.add(b"SEND")
    else:
        raise ValueError("cannot encode kind %r" % (kind,))
    return writer.chunks


def _encode_nested(spec, value, options):
    return build_chunks(_encode_container(spec, value, options, outermost=False))


def _encode_project(spec, writer, value, options, outermost):
    header = _Writer(options["omit"])
    for cid, key, codec, _default in PROJECT_TABLE:
        if value[key] is not None:
            header.add(cid, _ENCODERS[codec](value[key]))
        if cid == b"BVER":
            # DECISION 14: FLGS, SFGS directly after BVER (SunVox 2.x fixtures)
            header.add(b"FLGS", _enc_u32(value["flags"]))
            sync = (value["receive_sync_midi"] & 7) | ((value["receive_sync_other"] & 7) << 3)
            header.add(b"SFGS", _enc_u32(sync))
    head = header.chunks
    if outermost and options["header_order"]:
        wanted = [_idbytes(cid) for cid in options["header_order"]]
        by_id = {cid: (cid, payload) for cid, payload in head}
        first = [by_id[cid] for cid in wanted if cid in by_id]
        rest = [item for item in head if item[0] not in wanted]
        head = first + rest
    writer.add(b"SVOX")  # D "sunvox" 1.
    writer.chunks.extend(head)

    for pattern in value["patterns"]:
        if pattern is not None:
            _encode_pattern(writer, pattern)
        writer.add(b"PEND")  # D: empty slot = PEND alone
    for module in value["modules"]:
        if module is not None:
            _encode_module(spec, writer, module, options)
        writer.add(b"SEND")  # D: empty slot = SEND alone


def _encode_pattern(writer, pattern):
    if pattern["kind"] == "clone":
        for cid, key, codec in CLONE_TABLE:
            if pattern[key] is not None:
                writer.add(cid, _ENCODERS[codec](pattern[key]))
        return
    for cid, key, codec in PATTERN_TABLE:
        item = pattern[key]
        if item is None:
            continue
        if cid == b"PDTA":
            flat = [v for row in item for cell in row for v in cell]
            writer.add(cid, struct.pack("<" + "BBHHH" * (len(flat) // 5), *flat))
        else:
            writer.add(cid, _ENCODERS[codec](item))


def _encode_links(values, terminate):
    values = list(values)
    if terminate:
        values.append(-1)  # D: "optionally terminated with -1"
    return struct.pack("<%di" % len(values), *values)


def _encode_module(spec, writer, module, options):
    type_string = module["type"]
    tspec = spec.by_type_string.get(type_string)
    terminate = options["terminate_links"]

    for cid, key, codec in MODULE_TABLE:
        if cid == b"SMII":
            if module["midi_in_always"] is not None:
                channel = module["midi_in_channel"] or 0
                writer.add(cid, _enc_u32((channel << 1) | (1 if module["midi_in_always"] else 0)))
            continue
        item = module[key]
        if cid == b"STYP":
            if type_string != "Output":  # D: not present for "Output"
                writer.add(cid, _enc_cstring(type_string))
        elif cid == b"SMIN":
            if item:  # Y: optional, "Don't write if value is empty"
                writer.add(cid, _enc_cstring(item))
        elif cid == b"SNAM":
            if item is not None:
                raw = item.encode("utf-8", "surrogateescape")[:32]
                writer.add(cid, raw.ljust(32, b"\0"))  # D "string[32] (zero-padded)"
        elif cid == b"SLNK":
            if item is not None:
                writer.add(cid, _encode_links(item, terminate))
        elif cid == b"SLnK":
            links = module["in_links"]
            mode = options["slot_chunk"]
            if links is None or mode == "never":
                continue
            slots = item
            if mode == "auto":  # SHAPE: only when some slot not in {0, -1}
                if slots is None or all(s in (0, -1) for s in slots):
                    continue
            elif slots is None:
                slots = [-1 if link == -1 else 0 for link in links]  # DECISION 15
            writer.add(cid, _encode_links(slots, terminate))
        elif item is not None:
            writer.add(cid, _ENCODERS[codec](item))

    raws = _encode_controllers(tspec, type_string, module.get("controllers"), module.get("cvals_raw"))
    for raw in raws:
        writer.add(b"CVAL", _enc_i32(raw))  # D one CVAL per controller; L signed
    if module["cmid"] is not None:
        parts = []
        for message_type, channel, slope, parameter in module["cmid"]:
            # D "Controller MIDI mappings"; byte 7: 0xff unset / 0xc8 otherwise
            parts.append(
                struct.pack("<BBBxHxB", message_type, channel, slope, parameter,
                            0xC8 if message_type else 0xFF)  # fmt: skip
            )
        writer.add(b"CMID", b"".join(parts))
    if module["chnk"] is not None:
        writer.add(b"CHNK", _enc_u32(module["chnk"]))

    mchunks = _encode_payload(spec, type_string, tspec, module, options)
    for number in sorted(mchunks):  # DECISION 14: ascending CHNM
        data, fmt, rate = mchunks[number]
        writer.add(b"CHNM", _enc_u32(number))
        writer.add(b"CHDT", data)
        if fmt is not None:
            writer.add(b"CHFF", _enc_u32(fmt))
        if rate is not None:
            writer.add(b"CHFR", _enc_u32(rate))


def _encode_payload(spec, type_string, tspec, module, options):
    """{CHNM: (data, CHFF | None, CHFR | None)} for one module."""
    mchunks = {}
    payload = module.get("payload") or {}

    record = _encode_options(tspec, module.get("options"), module.get("options_raw"))
    if record is not None and tspec is not None and tspec.options_chnm is not None:
        mchunks[tspec.options_chnm] = (record, None, None)

    arrays = _ARRAYS.get(type_string)
    if arrays:
        defaults = _array_defaults(spec, type_string)
        for key, chnm, code, _length in arrays:
            values = payload.get(key)
            if values is None:
                continue
            if _copy_array(values) == defaults[key]:
                continue  # DECISION 12: "omitted when default"
            if type_string in _DRAWN_WAVEFORM_TYPES:
                mchunks[chnm] = (_pack_array(code, values), 1, 44100)  # ground truth: CHFF 1, CHFR 44100
            else:
                mchunks[chnm] = (_pack_array(code, values), None, None)
    elif type_string == "Vorbis player":
        if payload.get("data") is not None:
            mchunks[0] = (bytes(payload["data"]), None, None)  # D CHNM 0
    elif type_string == "MetaModule":
        if payload.get("project") is not None:
            mchunks[0] = (_encode_nested(spec, payload["project"], options), None, None)
        if payload.get("mappings") is not None:
            flat = [v for pair in payload["mappings"] for v in pair]
            mchunks[1] = (struct.pack("<%dH" % len(flat), *flat), None, None)
        for index, label in (payload.get("labels") or {}).items():
            mchunks[_METAMODULE_LABEL_BASE + int(index)] = (_enc_cstring(label), None, None)
    elif type_string == "Sampler":
        _encode_sampler(spec, payload, options, mchunks)
    return mchunks


def _encode_sampler(spec, payload, options, mchunks):
    samples = payload.get("samples") or {}
    for index, sample in samples.items():
        index = int(index)
        data = bytes(sample["data"])
        channels = 2 if sample["stereo"] else 1
        frames = len(data) // (sample["format"] * channels) if sample["format"] else 0  # DECISION 10
        bitmap = (
            (sample["loop_type"] & 3)
            | (4 if sample["loop_sustain"] else 0)
            | {1: 0x00, 2: 0x10, 4: 0x20}.get(sample["format"], 0)
            | (0x40 if sample["stereo"] else 0)
        )
        meta = struct.pack(
            "<IIIBbBBbx22sI",
            frames, sample["loop_start"], sample["loop_len"], sample["volume"], sample["finetune"],
            bitmap, sample["panning"] + 128, sample["relative_note"],
            bytes(sample["name"])[:22], sample["start_pos"],
        )  # fmt: skip
        meta_size = sample["meta_size"]
        if meta_size:
            mchunks[2 * index + 1] = (meta[:meta_size].ljust(meta_size, b"\0"), None, None)
        chff = sample["format"] | (8 if sample["stereo"] else 0)  # D "Chunk audio format bitmap"
        mchunks[2 * index + 2] = (data, chff, sample["rate"])

    for chnm, key, minimum in _SAMPLER_ENVELOPES:
        envelope = (payload.get("envelopes") or {}).get(key)
        if envelope is None:
            continue
        flags = (
            (1 if envelope["enable"] else 0)
            | (2 if envelope["sustain"] else 0)
            | (4 if envelope["loop"] else 0)
        )
        points = envelope["points"]
        head = struct.pack(
            "<HBBB3xHHHH4x",
            flags, envelope["ctl_index"], envelope["gain_pct"], envelope["velocity"],
            len(points), envelope["sustain_point"], envelope["loop_start_point"],
            envelope["loop_end_point"],
        )  # fmt: skip
        flat = [v for x, y in points for v in (x, y - minimum)]
        mchunks[chnm] = (head + struct.pack("<%dH" % len(flat), *flat), None, None)

    size = payload.get("record_size")
    if size is not None:
        record = bytearray(max(_SAMPLER_RECORD_SIZE, size))
        top = max([int(i) for i in samples], default=-1) + 1
        struct.pack_into("<I", record, 0x1C, top)  # D "Max sample index + 1"
        for offset, fmt, key in (
            (0xEE, "<B", "vibrato_type"), (0xEF, "<B", "vibrato_attack"),
            (0xF0, "<B", "vibrato_depth"), (0xF1, "<B", "vibrato_rate"),
            (0xF2, "<H", "volume_fadeout"), (0x184, "<I", "max_version"),
            (0x188, "<i", "editor_cursor"), (0x18C, "<i", "editor_selected_size"),
        ):  # fmt: skip
            if payload.get(key) is not None:
                struct.pack_into(fmt, record, offset, payload[key])
        record[0xF4:0xFC] = bytes.fromhex("4000800000000000")  # D constant
        signature = bytes(payload.get("signature") or b"")[:4]
        record[0xFC : 0xFC + len(signature)] = signature  # D: 'PMAS'
        record[0x100:0x104] = bytes.fromhex("04000000")  # D constant
        notes = bytes(payload.get("note_samples") or b"")[:0x80]
        record[0x104 : 0x104 + len(notes)] = notes  # D 0x104..
        mchunks[0] = (bytes(record[:size]), None, None)

    if payload.get("effect") is not None:
        mchunks[_SAMPLER_EFFECT_CHNM] = (_encode_nested(spec, payload["effect"], options), None, None)
