"""Shared helpers for the E-DEV checks: round trips, comparison with soundness rules, task
aggregation."""
import hashlib
import io

from rvmc import snapshot as S


def h8(b):
    return hashlib.blake2b(b, digest_size=8).digest()


def load_bytes(b):
    from rv.readers.reader import read_sunvox_file

    return read_sunvox_file(io.BytesIO(b))


def save(obj):
    f = io.BytesIO()
    obj.write_to(f)
    return f.getvalue()


def api_paths_agree(obj, b, key, case, files=False):
    """The library offers several ways to the same bytes and back: write_to(file object) [= `save`], read(), a real
    file given as str or Path, clone().  They must agree with each other (a fault in only one of them is invisible
    to a harness that always uses the same one)."""
    import os
    import pathlib
    import tempfile

    from rv.readers.reader import read_sunvox_file

    vs = []
    try:
        r = obj.read()
    except Exception as e:
        return [viol("read()-raises-where-write_to-works", dict(key, exc=type(e).__name__), {"error": repr(e)[:200]}, case)]
    if r != b:
        vs.append(viol("read()-differs-from-write_to", dict(key), {"lens": [len(r), len(b)]}, case))
    if files:
        d = tempfile.mkdtemp(prefix="rvmc-paths-")
        path = os.path.join(d, "x.bin")
        try:
            with open(path, "wb") as fh:
                obj.write_to(fh)
            on_disk = open(path, "rb").read()
            if on_disk != b:
                vs.append(viol("file-on-disk-differs-from-write_to", dict(key), {"lens": [len(on_disk), len(b)]}, case))
            want = S.snapshot(load_bytes(b))
            for how, arg in (("str", path), ("Path", pathlib.Path(path))):
                got = S.snapshot(read_sunvox_file(arg))
                dd = S.diff(want, got)
                if dd:
                    vs.append(viol("load-by-path-differs-from-load-by-file-object", dict(key, how=how, path=first_diff_key(dd)),
                                   {"diff": S.diff_text(dd)}, case))
            with open(path, "rb") as fh:
                got = S.snapshot(read_sunvox_file(fh))
            if S.diff(want, got):
                vs.append(viol("load-by-path-differs-from-load-by-file-object", dict(key, how="real-file-object"), {}, case))
        except Exception as e:
            vs.append(viol("file-path-io-raises", dict(key, exc=type(e).__name__), {"error": repr(e)[:200]}, case))
        finally:
            if os.path.exists(path):
                os.unlink(path)
            os.rmdir(d)
    return vs


def first_byte_diff(a, b):
    n = min(len(a), len(b))
    i = next((k for k in range(n) if a[k] != b[k]), n)
    return {"offset": i, "a": a[i:i + 12].hex(), "b": b[i:i + 12].hex()}


def norm_name(s, limit=32):
    """N10: longest prefix whose UTF-8 form fits `limit` bytes."""
    if s is None:
        return s
    out = ""
    n = 0
    for ch in s:
        k = len(ch.encode("utf8"))
        if n + k > limit:
            break
        out += ch
        n += k
    return out


def norm_module_for_compare(m):
    """Normalisations allowed by the property text for a module snapshot BEFORE saving
    (N10: module names up to the 32-byte limit), applied recursively to embedded projects
    and sampler effects."""
    if m is None:
        return None
    m = dict(m)
    if m["type"] != "Output":
        m["name"] = norm_name(m["name"])
    pl = m.get("payload") or {}
    if "project" in pl:
        pl = dict(pl)
        pl["project"] = norm_project_for_compare(pl["project"])
        m["payload"] = pl
    if pl.get("effect"):
        pl = dict(pl)
        eff = dict(pl["effect"])
        eff["module"] = norm_module_for_compare(eff["module"])
        pl["effect"] = eff
        m["payload"] = pl
    return m


def norm_project_for_compare(s):
    s = dict(s)
    s["modules"] = [norm_module_for_compare(m) for m in s["modules"]]
    return s


def viol(sub, key, detail, case=None):
    return {"subcheck": sub, "key": key, "detail": detail, "case": case}


class Agg:
    """Aggregates task results: counters, digest sets, violations, samples."""

    def __init__(self):
        self.evals = 0
        self.counters = {}
        self.digests = set()
        self.violations = []
        self.samples = []

    def merge(self, r):
        self.evals += r.get("evals", 0)
        for k, v in r.get("counters", {}).items():
            self.counters[k] = self.counters.get(k, 0) + v
        self.digests |= r.get("digests", set())
        self.violations += r.get("violations", [])
        if len(self.samples) < 6 and r.get("sample") is not None:
            self.samples.append(r["sample"])


def new_result():
    return {"evals": 0, "counters": {}, "digests": set(), "violations": [], "sample": None}


def count(r, k, n=1):
    r["counters"][k] = r["counters"].get(k, 0) + n


def first_diff_key(d):
    return S.generic_path(d[0][0]) if d else None


def poisoned_save_cycle(make, poisons, key, case):
    """A save that FAILS because of a momentarily invalid attribute (set by `poison`, undone by `heal`) must
    leave no trace: after healing, the same object saves to the same bytes as before, and so does an
    unrelated fresh object (scratch buffers / caches shared between saves would be left half-filled).
    `make()` -> (container, locate) where locate(container, name) returns the sub-object to poison."""
    vs = []
    n = 0
    for name, poison, heal in poisons:
        obj = make()
        try:
            ref = save(obj)
        except Exception:
            continue
        other_ref = save(make())
        try:
            token = poison(obj)
        except Exception:
            continue
        if token is None:
            continue
        n += 1
        failed = False
        try:
            save(obj)
        except Exception:
            failed = True
        heal(obj, token)
        if not failed:
            continue
        try:
            again = save(obj)
            other = save(make())
        except Exception as e:
            vs.append(viol("save-after-failed-save-raises", dict(key, poison=name, exc=type(e).__name__), {"error": repr(e)[:200]}, case))
            continue
        if again != ref:
            vs.append(viol("failed-save-leaves-a-trace", dict(key, poison=name, where="same-object"), {"lens": [len(ref), len(again)]}, case))
        elif other != other_ref:
            vs.append(viol("failed-save-leaves-a-trace", dict(key, poison=name, where="other-object"), {"lens": [len(other_ref), len(other)]}, case))
    return n, vs
