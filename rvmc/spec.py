"""Minimal reader of specs/fileformat.yaml for the enumerators (controller / option tables).

Independent of rv and of genrv's templates: the YAML is the ground truth for metadata.
"""
import functools
import os

import yaml

from . import treeenv


def enumname(ekey):
    """The documented mangling of enum keys into identifiers (genrv/tools/generate.py)."""
    ekey = str(ekey)
    for a, b in (("/", "_div_"), ("*", "_mul_"), (".", "_"), ("+", "_plus_"), ("-", "_neg_"), ("^", "_pow_")):
        ekey = ekey.replace(a, b)
    if ekey[0].isdigit():
        ekey = "_" + ekey
    elif ekey[0] == "_":
        ekey = ekey[1:]
    while "__" in ekey:
        ekey = ekey.replace("__", "_")
    return ekey.lower()


class Ctl:
    __slots__ = ("name", "attr", "number", "kind", "min", "max", "enum", "members", "default",
                 "depends_on", "ranges", "raw")

    def __repr__(self):
        return f"<Ctl {self.name} {self.kind}>"


class Opt:
    __slots__ = ("name", "byte", "bit", "size", "number", "default", "inverted", "exclusive_of",
                 "min", "max", "enum")


class MType:
    __slots__ = ("key", "type", "group", "flags", "controllers", "options", "options_chnm", "chunks",
                 "enums", "raw")


@functools.lru_cache(maxsize=None)
def load(repo=None):
    repo = repo or treeenv.REPO
    with open(os.path.join(repo, "specs", "fileformat.yaml")) as f:
        y = yaml.safe_load(f)
    types = {}
    for key, m in y["module_types"].items():
        t = MType()
        t.key = key
        t.type = m.get("type") or key
        t.group = m.get("group")
        t.flags = m.get("defaultFlags") or 0
        t.enums = {en: {str(k): v for k, v in e.items()} for en, e in (m.get("enums") or {}).items()}
        t.controllers = []
        for i, c in enumerate(m.get("controllers") or [], 1):
            ((cn, cd),) = c.items()
            x = Ctl()
            x.raw = cd
            x.name = cn
            x.attr = "in_" if cn == "in" else cn
            x.number = i
            x.min = x.max = x.enum = x.members = x.depends_on = x.ranges = None
            x.default = cd.get("default")
            if "min" in cd and "max" in cd:
                x.kind = "compact" if cd.get("compact") else "no_offset" if cd.get("no_offset") else "range"
                x.min, x.max = cd["min"], cd["max"]
            elif "enum" in cd:
                x.kind = "enum"
                x.enum = cd["enum"]
                x.members = t.enums[cd["enum"]]
                x.default = str(x.default)
            elif "bool" in cd:
                x.kind = "bool"
            elif "depends_on" in cd:
                x.kind = "dependent"
                x.depends_on = cd["depends_on"]
                x.ranges = {str(k): (v["min"], v["max"]) for k, v in cd["ranges"].items()}
            else:
                raise ValueError((key, cn, cd))
            t.controllers.append(x)
        t.options = []
        for o in m.get("options") or []:
            ((on, od),) = o.items()
            z = Opt()
            z.name = on
            z.byte, z.bit, z.size = od["byte"], od["bit"], od["size"]
            z.number = od.get("number")
            z.default = od.get("default")
            z.inverted = bool(od.get("inverted"))
            z.exclusive_of = list(od.get("exclusive_of") or [])
            z.min, z.max = od.get("min"), od.get("max")
            z.enum = od.get("enum")
            t.options.append(z)
        t.options_chnm = m.get("options_chnm")
        t.chunks = m.get("chunks") or []
        t.raw = m
        types[key] = t
    return types, y


def types():
    return load()[0]
