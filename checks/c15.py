"""C15 — MetaModules keep embedded project and user controllers intact at any depth.

E-DEV + nesting: chains of MetaModules of depth 0..3 (thorough 0..5 and a 2-way branch), the
innermost project carrying a one-deviation module; user-controller count n over ALL 0..96; for
n in {0,1,2,95,96} mappings of slot i (each kind of target: non-negative range, negative-minimum
range, compact, no-offset, enum, bool, unit-dependent) with stored values at the target's raw
boundaries; labels {None, "", "a", non-ASCII, 40 chars} at boundary indices; both contexts.
Oracle: recursive snapshot equality after save/load (C01 rules), count, mappings, labels for i < n,
stored values (get_raw); independent decode: exactly 5 + n CVALs, label chunks CHNM 8+i only for
i < n, mapping array 96 x 4 bytes; attached flags == [True]*n + [False]*(96-n) after load.
"""
from checks import common as C
from rvmc import deviate, snapshot as S, treeenv
from rvref import codec

PROPERTY = "C15"
LEVEL = "exploration"
ASSUMPTIONS = [
    "user-defined controllers are compared by STORED value (N13): the API view legitimately changes type when the mapping "
    "re-derives the value type on load",
    "bounded nesting depth as reported; one deviation in the innermost module",
]

# (module type, controller attr) per target kind
TARGETS = {
    "range+": ("Amplifier", "volume"), "range-": ("Amplifier", "balance"), "compact": ("MultiSynth", "transpose"),
    "no_offset": ("VorbisPlayer", "finetune"), "enum": ("AnalogGenerator", "waveform"), "bool": ("Amplifier", "inverse"),
    "dependent": ("Lfo", "freq"), "range-big": ("Amplifier", "bipolar_dc_offset"),
}


def build_mm(spec):
    """spec: {"n": count, "inner": [[type, devs], ...], "maps": [[slot, module_index, ctl_index0]], "labels": {i: str},
              "values": {slot: raw}, "child": spec | None, "children": [spec,...]}"""
    import rv.api as rv

    mm = rv.m.MetaModule()
    for ty, devs in spec.get("inner", []):
        mm.project.attach_module(deviate.build(ty, devs))
    for ch in ([spec["child"]] if spec.get("child") else []) + list(spec.get("children", [])):
        mm.project.attach_module(build_mm(ch))
    if spec.get("inner_name"):
        mm.project.name = spec["inner_name"]
    if spec.get("inner_meta"):
        im = spec["inner_meta"]
        ip = mm.project
        ip.name, ip.initial_bpm, ip.initial_tpl, ip.global_volume = im["name"], im["initial_bpm"], im["initial_tpl"], im["global_volume"]
        ip.output.color = tuple(im["output_color"])
        ip.output.x, ip.output.y = im["output_xy"]
    if spec.get("links"):
        for f, t in spec["links"]:
            mm.project.connect(mm.project.modules[f], mm.project.modules[t])
    mm.user_defined_controllers = spec.get("n", 0)
    for slot, mod_i, ctl_i in spec.get("maps", []):
        mp = mm.mappings.values[slot]
        mp.module, mp.controller = mod_i, ctl_i
    if spec.get("maps"):
        mm.update_user_defined_controllers()
    for idx in spec.get("empty_slots", []):
        # a module of the embedded project is deleted AFTER the mappings were set up: the slot stays, empty
        gone = mm.project.modules[idx]
        mm.project.modules[idx] = None
        if gone is not None:
            gone.parent = None
    for i, lab in (spec.get("labels") or {}).items():
        mm.user_defined[int(i)].label = lab
    for slot, raw in (spec.get("values") or {}).items():
        mm.set_raw(f"user_defined_{int(slot) + 1}", raw)
    for d in spec.get("devs", []):
        deviate.apply_dev(mm, d)
    return mm


def build_object(case):
    import rv.api as rv

    mm = build_mm(case["spec"])
    if case.get("ctx") == "project":
        p = rv.Project()
        p.attach_module(mm)
        return p
    return rv.Synth(mm)


def find_mm(dec_module):
    return dec_module


def structural(dec_mod, n, labels, key, case):
    vs = []
    if len(dec_mod["cvals_raw"]) != 5 + n:
        vs.append(C.viol("cval-count", dict(key), {"expected": 5 + n, "observed": len(dec_mod["cvals_raw"])}, case))
    lab = dec_mod["payload"]["labels"]
    if any(int(i) >= n for i in lab):
        vs.append(C.viol("label-written-beyond-count", dict(key), {"labels": sorted(lab)}, case))
    if len(dec_mod["payload"]["mappings"]) != 96:
        vs.append(C.viol("mapping-array-length", dict(key), {"len": len(dec_mod["payload"]["mappings"])}, case))
    return vs


def check_case(case):
    import rv.api as rv

    vs = []
    spec = case["spec"]
    key = {"what": case["label"]}
    try:
        b_unobserved = C.save(rv.Synth(build_mm(spec)))      # a twin saved without being read by the harness first
    except Exception:
        b_unobserved = None
    try:
        mm = build_mm(spec)
    except Exception as e:
        return [C.viol("api-rejects-in-domain-input", dict(key, exc=type(e).__name__), {"error": repr(e)[:200]}, case)], b""
    n = spec.get("n", 0)
    b = b""
    for ctx in ("synth", "project", "clone"):
        k2 = dict(key, ctx=ctx)
        try:
            if ctx == "synth":
                want = C.norm_module_for_compare(S.module(mm, in_project=False))
                b = C.save(rv.Synth(mm))
                if b_unobserved is not None and b_unobserved != b:
                    vs.append(C.viol("file-depends-on-whether-the-object-was-read-first", k2,
                                     {"first_difference": C.first_byte_diff(b_unobserved, b)}, case))
                l = C.load_bytes(b).module
                dec = codec.decode(b)
                dm = dec.value["module"]
            elif ctx == "clone":
                want = C.norm_module_for_compare(S.module(mm, in_project=False))
                l = mm.clone()
                dm = None
            else:
                p = rv.Project()
                p.attach_module(mm)
                want = C.norm_module_for_compare(S.module(mm, in_project=True))
                b2 = C.save(p)
                l = C.load_bytes(b2).modules[1]
                dec = codec.decode(b2)
                dm = dec.value["modules"][1]
                p.modules[1] = None
                mm.parent = None
                mm.index = None
        except Exception as e:
            vs.append(C.viol("save-or-load-raises", dict(k2, exc=type(e).__name__), {"error": repr(e)[:300]}, case))
            continue
        got = S.module(l, in_project=(ctx == "project"))
        d = S.diff(want, got)
        if d:
            vs.append(C.viol("roundtrip", dict(k2, path=C.first_diff_key(d)), {"diff": S.diff_text(d)}, case))
        # N13 compares user-defined controllers by their STORED word; the value the accessor presents (stored word seen
        # through the range mirrored from the target) must survive as well
        def logical(m_):
            out_ = []
            for i_ in range(n):
                v_ = getattr(m_, f"user_defined_{i_ + 1}")
                out_.append(int(getattr(v_, "value", v_)) if v_ is not None else None)
            return out_
        try:
            lb, ll = logical(mm), logical(l)
            if lb != ll:
                vs.append(C.viol("roundtrip", dict(k2, path="user-defined values as presented"), {"built": lb[:12], "loaded": ll[:12]}, case))
        except Exception as e:
            vs.append(C.viol("user-defined-value-unreadable", dict(k2, exc=type(e).__name__), {}, case))
        att = [c.attached(l) for c in l.user_defined]
        if att != [True] * n + [False] * (96 - n):
            vs.append(C.viol("attached-flags", k2, {"n": n, "attached_true": sum(att)}, case))
        if l.user_defined_controllers != n:
            vs.append(C.viol("count", k2, {"n": n, "loaded": l.user_defined_controllers}, case))
        if ctx in ("synth", "project") and n >= 1 and not vs:
            # second generation: the FIRST change of the count on the loaded module is a decrease; in both contexts the next
            # file exposes exactly the first n-1 controllers (values, labels, MIDI bindings of the hidden one are not written)
            try:
                l.user_defined_controllers = n - 1
                if ctx == "project":
                    p2 = rv.Project()
                    if l.parent is not None:
                        l.parent.modules[l.index] = None
                        l.parent, l.index = None, None
                    p2.attach_module(l)
                    bb = C.save(p2)
                    dm2 = codec.decode(bb).value["modules"][1]
                    l2 = C.load_bytes(bb).modules[1]
                else:
                    bb = C.save(rv.Synth(l))
                    dm2 = codec.decode(bb).value["module"]
                    l2 = C.load_bytes(bb).module
                k3 = dict(k2, after="count-lowered-on-loaded-module")
                vs += structural(dm2, n - 1, None, k3, case)
                att2 = [c.attached(l2) for c in l2.user_defined]
                if att2 != [True] * (n - 1) + [False] * (96 - n + 1) or l2.user_defined_controllers != n - 1:
                    vs.append(C.viol("attached-flags", k3, {"n": n - 1, "attached_true": sum(att2)}, case))
                lab2 = {i: c.label for i, c in enumerate(l2.user_defined) if c.label is not None and i >= n - 1}
                if lab2:
                    vs.append(C.viol("label-written-beyond-count", k3, {"labels": lab2}, case))
            except Exception as e:
                vs.append(C.viol("count-change-on-loaded-module-raises", dict(k2, exc=type(e).__name__), {"error": repr(e)[:200]}, case))
        if dm is not None:
            vs += structural(dm, n, spec.get("labels"), k2, case)
            # the stored word of a mapped controller, as documented: value minus a negative minimum of the range it mirrors
            for slot, raw in (spec.get("expect_raw") or {}).items():
                words = dm["cvals_raw"]
                if len(words) <= 5 + int(slot) or words[5 + int(slot)] != raw:
                    vs.append(C.viol("stored-word-of-mapped-controller", k2,
                                     {"slot": int(slot), "expected": raw, "stored": words[5:]}, case))
            if dec.problems:
                probs = [p for p in dec.problems if "options record length" not in p]
                if probs:
                    vs.append(C.viol("structural-rule", dict(k2, rule=probs[0][:60]), {"problems": probs[:3]}, case))
    return vs, b


# ----------------------------------------------------------------------------- enumeration
def raw_bounds(ty, attr):
    import rv.modules as M

    m = getattr(M, ty)()
    c = m.controllers[attr]
    t = c.instance_value_type(m)
    if hasattr(t, "min"):
        lo = t.to_raw_value(t.min) if hasattr(t, "to_raw_value") else t.min
        hi = t.to_raw_value(t.max) if hasattr(t, "to_raw_value") else t.max
        return sorted({lo, lo + 1, (lo + hi) // 2, hi - 1, hi})
    if t is bool:
        return [0, 1]
    return sorted({int(x.value) for x in t})[:1] + sorted({int(x.value) for x in t})[-1:]


def ctl_index(ty, attr):
    import rv.modules as M

    return list(getattr(M, ty).controllers).index(attr)


def object_cases(ctx):
    cases = []

    def add(label, spec):
        cases.append({"label": label, "spec": spec})

    add("default", {})
    inner_devs = [("Amplifier", [{"k": "ctl", "n": "balance", "v": -128}]), ("Generator", [{"k": "elem", "p": "drawn_waveform", "i": 3, "v": -128}]),
                  ("MultiSynth", [{"k": "opt", "n": "trigger", "v": 1}]), ("Sampler", []), ("Amplifier", [{"k": "attr", "n": "name", "v": "a" * 31 + "é"}])]
    maxdepth = 5 if ctx.thorough else 3
    for depth in range(0, maxdepth + 1):
        for ty, devs in inner_devs if depth <= 2 else inner_devs[:2]:
            spec = {"inner": [[ty, devs]], "inner_name": "innermost", "n": 1, "maps": [[0, 1, 0]]}
            for lvl in range(depth):
                spec = {"child": spec, "inner": [["Amplifier", []]], "n": 2, "maps": [[0, 2, 0]], "labels": {"0": f"lvl{lvl}"},
                        "links": [[1, 0], [2, 1]]}
            add(f"nesting-depth-{depth}", spec)
    if ctx.thorough:
        leaf = {"inner": [["Amplifier", [{"k": "ctl", "n": "volume", "v": 7}]]], "n": 1, "maps": [[0, 1, 0]]}
        mid = {"children": [leaf, leaf], "n": 0}
        add("branch", {"children": [mid, {"child": leaf}], "inner": [["Reverb", []]], "n": 3})
    for n in range(0, 97):
        add("count", {"n": n, "inner": [["Amplifier", []]]})
    # ALL n controllers mapped, each with its own stored value and label (values that differ per slot show any
    # permutation of the slots between writer and reader, e.g. 1, 10, 11, ... 2 for n >= 10)
    for n in (1, 2, 9, 10, 11, 12, 27, 95, 96):
        add("count-distinct-values", {"n": n, "inner": [["Amplifier", []]], "maps": [[i, 1, 0] for i in range(n)],
                                      "values": {str(i): 100 + 7 * i for i in range(n)},
                                      "labels": {str(i): f"L{i}" for i in range(n)}})
    # a user-defined controller mapped onto a user-defined controller of a NESTED MetaModule (a chain of proxies)
    for ty, attr, v in (("MultiSynth", "transpose", -5), ("Amplifier", "balance", -100), ("Amplifier", "volume", 300)):
        leaf = {"inner": [[ty, [{"k": "ctl", "n": attr, "v": v}]]], "n": 1, "maps": [[0, 1, ctl_index(ty, attr)]]}
        raw = v + 128 if v < 0 else v       # transpose and balance both range -128..128
        add("mapping-chain", {"child": leaf, "n": 1, "maps": [[0, 1, 5]], "expect_raw": {"0": raw}})
        add("mapping-chain", {"child": {"child": leaf, "n": 2, "maps": [[1, 1, 5]], "expect_raw": {"1": raw}}, "n": 1,
                              "maps": [[0, 1, 6]], "expect_raw": {"0": raw}})
    # a nested MetaModule that exposes NOTHING (count 0) but is wired into the embedded project and is the target of an
    # outer mapping (an object that looks "empty" must still count as a module)
    empty_child = {"inner": [["Amplifier", []]], "n": 0}
    add("nested-metamodule-with-count-0", {"child": empty_child, "inner": [["Generator", []]], "n": 1, "maps": [[0, 2, 2]],
                                           "links": [[1, 2], [2, 0]]})
    add("nested-metamodule-with-count-0", {"child": {"child": empty_child, "inner": [["Generator", []]], "n": 0, "links": [[1, 2], [2, 0]]},
                                           "inner": [["Generator", []]], "n": 0, "links": [[1, 2], [2, 0], [1, 0]]})
    # a nested MetaModule whose stored user-defined values differ from their (shared) target's value
    twin = {"inner": [["Amplifier", []]], "n": 2, "maps": [[0, 1, 0], [1, 1, 0]], "values": {"0": 10, "1": 20}}
    add("nested-stored-values-differ-from-target", {"child": twin, "n": 0})
    add("nested-stored-values-differ-from-target", {"child": {"child": twin, "n": 1, "maps": [[0, 1, 5]]}, "n": 0})
    # three exposed controllers whose stored values DIFFER from the current values of their targets (used by C06 as a
    # source for edits of the count: hiding and re-exposing controllers is not an edit of their values)
    add("stored-values-apart-from-targets", {"n": 3, "inner": [["Amplifier", []], ["Generator", []]],
                                             "maps": [[0, 1, 0], [1, 2, 1], [2, 1, ctl_index("Amplifier", "balance")]],
                                             "values": {"0": 55, "1": 1, "2": 123}, "labels": {"0": "a", "2": "c"}})
    # an embedded project that holds NOTHING but its Output, yet carries settings of its own (name, tempo, volume, a
    # customised Output) -- at the top and as the innermost project of a nest
    meta = {"name": "drone bed", "initial_bpm": 90, "initial_tpl": 3, "global_volume": 77, "output_color": [10, 20, 30],
            "output_xy": [300, 700]}
    add("output-only-embedded-project", {"n": 0, "inner_meta": meta})
    add("output-only-embedded-project", {"child": {"n": 0, "inner_meta": meta}, "n": 0})
    add("output-only-embedded-project", {"child": {"child": {"n": 0, "inner_meta": meta}, "n": 0, "inner": [["Amplifier", []]]}, "n": 0})
    # an earlier mapping points at a module slot that has been emptied; later mappings onto negative-minimum targets
    bal, dco = ctl_index("Amplifier", "balance"), ctl_index("Amplifier", "dc_offset")
    for hole_first in (True, False):
        inner = [["Generator", []], ["Amplifier", [{"k": "ctl", "n": "balance", "v": -17}, {"k": "ctl", "n": "dc_offset", "v": 40}]]]
        maps = [[0, 2, 0], [1, 1, 0], [2, 2, bal], [3, 2, dco]] if hole_first else [[0, 2, bal], [1, 2, dco], [2, 1, 0], [3, 2, 0]]
        add("mapping-onto-emptied-slot", {"n": 4, "inner": inner, "maps": maps, "empty_slots": [1]})
    for n in (0, 1, 2, 95, 96):
        slots = sorted({0, max(0, n - 1)}) if n else []
        for kind, (ty, attr) in TARGETS.items():
            ci = ctl_index(ty, attr)
            inner = [[ty, []]]
            if kind == "dependent":
                inner = [[ty, [{"k": "ctl", "n": "frequency_unit", "v": 2}]]]
            for slot in slots + [n] if n < 96 else slots:      # one mapping at i >= n as well
                for raw in raw_bounds(ty, attr):
                    add(f"mapping:{kind}", {"n": n, "inner": inner, "maps": [[slot, 1, ci]], "values": ({str(slot): raw} if slot < n else {})})
        for lab in (None, "", "a", "Größe 中", "L" * 40):
            for i in sorted({0, max(0, n - 1), min(95, n)}):
                add("label", {"n": n, "inner": [["Amplifier", []]], "labels": {str(i): lab}})
    for d in deviate.module_devs("MetaModule", ctx.seed, spikes="few", opt8="few"):
        if d["k"] in ("ctl", "opt", "cmid") and d.get("n") != "user_defined_controllers":
            add("controller-or-option", {"n": 2, "inner": [["Amplifier", []]], "devs": [d]})
    return cases


def poisoned_saves():
    """A save failing INSIDE an embedded project at nesting depth 1..3, then healed and repeated."""
    import rv.api as rv

    vs = []
    n = 0
    for depth in (1, 2, 3):
        def make(depth=depth):
            spec = {"inner": [["Amplifier", []]], "inner_name": "innermost", "n": 1, "maps": [[0, 1, 0]]}
            for lvl in range(depth - 1):
                spec = {"child": spec, "inner": [["Amplifier", []]], "n": 1, "maps": [[0, 2, 0]]}
            p = rv.Project()
            p.attach_module(build_mm(spec))
            p.new_module(rv.m.Generator)
            return p

        def innermost(p, depth=depth):
            mm = p.modules[1]
            for _ in range(depth - 1):
                mm = next(x for x in mm.project.modules if type(x).__name__ == "MetaModule")
            return next(x for x in mm.project.modules if type(x).__name__ == "Amplifier")

        def poison(p):
            tgt = innermost(p)
            old = tgt.color
            tgt.color = (300, 0, 0)
            return (old,)

        def heal(p, token):
            innermost(p).color = token[0]

        def poison2(p):
            tgt = innermost(p)
            old = tgt.name
            tgt.name = None
            return (old,)

        def heal2(p, token):
            innermost(p).name = token[0]

        k, v = C.poisoned_save_cycle(make, [(f"innermost-color@depth{depth}", poison, heal),
                                            (f"innermost-name@depth{depth}", poison2, heal2)],
                                     {"what": "poisoned-save"}, {"poisoned": True})
        n += k
        vs += v
    return n, vs


def alias_exposure():
    """Exactly the first n user-defined controllers are exposed — also through the label aliases (u_<label>) of the
    live object, for every order of labelling and changing the count."""
    import rv.api as rv

    vs = []
    n = 0
    for total, lower in ((3, 1), (3, 0), (5, 2), (96, 95), (2, 2)):
        for order in ("label-then-lower", "lower-then-label"):
            n += 1
            mm = rv.m.MetaModule()
            mm.project.new_module(rv.m.Amplifier)
            labels = [f"ctl{i}" for i in range(total)]
            if order == "label-then-lower":
                mm.user_defined_controllers = total
                for i, lab in enumerate(labels):
                    mm.user_defined[i].label = lab
                mm.user_defined_controllers = lower
            else:
                mm.user_defined_controllers = lower
                for i, lab in enumerate(labels):
                    mm.user_defined[i].label = lab
            exposed = sorted(x for x in dir(mm) if x.startswith("u_ctl"))
            want = sorted(f"u_ctl{i}" for i in range(lower))
            hidden_visible = [f"u_ctl{i}" for i in range(lower, total) if hasattr(mm, f"u_ctl{i}")]
            if exposed != want or hidden_visible:
                vs.append(C.viol("hidden-controller-exposed-by-alias", {"order": order},
                                 {"count": lower, "labelled": total, "dir": exposed[:6], "hasattr_hidden": hidden_visible[:6]},
                                 {"aliases": True}))
            names = [c.name for c in mm.user_defined if c.attached(mm)]
            if names != [f"user_defined_{i + 1}" for i in range(lower)]:
                vs.append(C.viol("attached-flags", {"ctx": "live", "what": "alias-exposure"}, {"attached": names[:6]}, {"aliases": True}))
    return n, vs


def run_case(case):
    if case.get("aliases"):
        return alias_exposure()[1]
    if case.get("poisoned"):
        return poisoned_saves()[1]
    return check_case(case)[0]


def _task(t):
    r = C.new_result()
    for case in t:
        vs, b = check_case(case)
        r["evals"] += 1
        r["digests"].add(C.h8(b))
        if len(r["violations"]) < 40:
            r["violations"] += vs
    r["sample"] = t[-1]
    return r


def run(ctx):
    treeenv.setup()
    cases = object_cases(ctx)
    tasks = [cases[i:i + 20] for i in range(0, len(cases), 20)]
    from rvmc.runner import rotate

    agg = C.Agg()
    for r in ctx.pmap(_task, rotate(tasks, ctx.seed)):
        agg.merge(r)
    ctx.add(agg.violations)
    n_p, v_p = poisoned_saves()
    ctx.add(v_p)
    n_a, v_a = alias_exposure()
    ctx.add(v_a)
    agg.evals += n_p + n_a
    labels = {"poisoned-saves": n_p, "alias-exposure": n_a}
    for c in cases:
        k = c["label"].split(":")[0]
        labels[k] = labels.get(k, 0) + 1
    return {
        "evaluations": agg.evals,
        "distinct_nontrivial": max(0, len(agg.digests) - 1),
        "rule": "MetaModule objects enumerated as in the module docstring, each through Synth write/read, Project write/read "
                "and clone(), plus independent decode of the written bytes; distinct_nontrivial = distinct written files",
        "exhaustive": True, "cases_by_kind": labels, "max_nesting_depth": 5 if ctx.thorough else 3,
        "samples": agg.samples[:3],
    }
