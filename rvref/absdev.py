"""Abstract-level deviations: applies the JSON deviation vocabulary of the enumerators to an
ABSTRACT module description (rvref/SHAPE.md dict) — never touches rv.  Together with
rvref.selftest.make_module (YAML defaults) and rvref.codec.encode this makes the reference
the WRITER of a file and rv only its reader (C04)."""
from . import codec
from .selftest import finish_module, make_module, make_output, make_pattern, make_project, make_synth  # noqa
from .spec import load_spec

COMMON = {"finetune", "relative_note", "x", "y", "layer", "scale", "midi_in_always", "midi_in_channel",
          "midi_out_channel", "midi_out_bank", "midi_out_program", "midi_out_name", "name", "color"}
FLAG_BITS = {"mute": 0x80, "solo": 0x100, "bypass": 0x4000, "selected": 0x02000000}
# docs "Module visualization bitmap": field -> (shift, width)
VIS = {"level_mode": (0, 5), "orientation": (5, 1), "oscilloscope_mode": (8, 5), "oscilloscope_size": (16, 8),
       "bg_transparency": (24, 2), "shadow_opacity": (26, 2)}
ARRAY_RANGE = {"drawn_waveform": (-128, 127), "nv_curve": (0, 255), "vv_curve": (0, 255), "np_curve": (0, 65535),
               "harmonic_freqs": (0, 0x8000), "harmonic_volumes": (0, 255), "harmonic_widths": (0, 255),
               "harmonic_types": (0, 13), "curve": None}


def yaml_name(tspec, attr):
    for c in tspec.controllers:
        if c.name == attr or getattr(c, "attr_name", c.name) == attr:
            return c.name
    raise KeyError(attr)


def set_ctl(module, tspec, attr, v):
    n = yaml_name(tspec, attr)
    for pair in module["controllers"]:
        if pair[0] == n:
            pair[1] = int(v)
            return
    raise KeyError(attr)


def apply(module, d):
    spec = load_spec()
    tspec = spec.by_type_string[module["type"]]
    k = d["k"]
    if k == "ctl":
        set_ctl(module, tspec, d["n"], d["v"])
    elif k == "unit":
        set_ctl(module, tspec, d["u"], d["uv"])
        set_ctl(module, tspec, d["n"], d["v"])
    elif k == "opt":
        opt = next(o for o in tspec.options if o.name == d["n"])
        v = d["v"]
        module["options"][d["n"]] = int(bool(v)) if opt.size == 1 else int(v)
    elif k == "attr":
        n = d["n"]
        if n == "data":
            module["payload"]["data"] = bytes(d["v"])
        elif n == "color":
            module["color"] = list(d["v"])
        elif n == "midi_out_name":
            module["midi_out_name"] = d["v"] or ""
        elif n in ("x", "y", "layer") and module[n] is None:
            pass                    # stand-alone synth: placement is not in sunsynth files
        else:
            module[n] = d["v"]
    elif k == "flag":
        module["flags"] |= FLAG_BITS[d["n"]]
    elif k == "vis":
        if module["visualization"] is not None:
            shift, width = VIS[d["n"]]
            mask = ((1 << width) - 1) << shift
            module["visualization"] = (module["visualization"] & ~mask) | (int(d["v"]) << shift)
    elif k == "cmid":
        names = [p[0] for p in module["controllers"]]
        module["cmid"][names.index(yaml_name(tspec, d["n"]))] = list(d["v"])
    elif k in ("fill", "elem"):
        arr = module["payload"][d["p"]]
        rng = ARRAY_RANGE.get(d["p"])
        if d["p"] == "curve":
            rng = (0, 0x8000) if module["type"] == "MultiCtl" else (0, 65535)
        if k == "elem":
            arr[d["i"]] = d["v"]
        else:
            n = len(arr)
            pat = d["pat"]
            if pat == "const":
                arr[:] = [d["v"]] * n
            else:
                lo, hi = rng
                if pat == "min":
                    arr[:] = [lo] * n
                elif pat == "max":
                    arr[:] = [hi] * n
                elif pat == "ramp":
                    arr[:] = [lo + (i * (hi - lo)) // max(1, n - 1) for i in range(n)]
                elif pat == "alt":
                    arr[:] = [hi if i % 2 else lo for i in range(n)]
                elif pat == "shift":
                    delta = 256 if hi > 4096 else 1
                    arr[:] = [max(lo, min(hi, int(v) + delta)) for v in arr]
                elif pat == "reverse":
                    arr[:] = [int(v) for v in reversed(arr)]
    elif k == "mcmap":
        module["payload"]["mappings"][d["i"]][0:3] = list(d["v"])
    elif k == "mcmapx":
        module["payload"]["mappings"][d["i"]][0:8] = list(d["v"])
    elif k == "mmud":
        n = d["c"]
        module["options"]["user_defined_controllers"] = n
        fixed = module["controllers"][:5]
        module["controllers"] = fixed + [[f"user_defined_{i + 1}", 0] for i in range(n)]
        module["cmid"] = (module["cmid"] or [])[:5] + [[0, 0, 0, 0] for _ in range(n)]
        module["cmid"][5 + n - 1] = list(d["cmid"])
        if d.get("label") is not None:
            module["payload"]["labels"] = {n - 1: d["label"]}
    else:
        raise ValueError(k)
    module["cvals_raw"] = None
    return module


def build_module(type_string, devs, in_project=True):
    m = make_module(type_string, in_project=in_project)
    if type_string == "MetaModule" and m["payload"].get("project") is None:
        m["payload"]["project"] = make_project(name="", modules=[make_output()])
    if type_string == "Sampler" and not m["payload"].get("envelopes"):
        m["payload"]["envelopes"] = default_envelopes()
    for d in devs:
        apply(m, d)
    return finish_module(m)


def default_envelopes():
    """Some valid envelopes (the format does not define defaults; values are arbitrary but in range)."""
    def env(points, enable=False, sustain=False, loop=False):
        return {"enable": enable, "sustain": sustain, "loop": loop, "ctl_index": 0, "gain_pct": 100, "velocity": 0,
                "sustain_point": 0, "loop_start_point": 0, "loop_end_point": 0, "points": [list(p) for p in points]}
    out = {"volume": env([(0, 0x8000), (8, 0), (0x80, 0), (0x100, 0)], True, True),
           "panning": env([(0, 0), (0x40, -0x2000), (0x80, 0x2000), (0xB4, 0)]),
           "pitch": env([(0, 0), (0x40, 0)])}
    for k in range(1, 5):
        out[f"effect{k}"] = env([(0, 0x8000), (0x40, 0x8000)])
    return out
