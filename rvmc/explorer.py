"""E-BFS: explicit-state breadth-first search over the REAL transition functions.

A *system* object closes the library with a small driver:

    sys.ops                      list of JSON-able operations (the alphabet)
    sys.fresh()               -> live state (real rv objects), freshly constructed
    sys.apply(live, op)       -> outcome string (e.g. "ok", "raise:ModuleOwnershipError")
    sys.canon(live)           -> hashable canonical form of the property-relevant state
    sys.invariant(live)       -> list of violation dicts (evaluated in EVERY reached state)
    sys.model_fresh()         -> reference-model state
    sys.model_apply(m, op)    -> expected outcome string
    sys.compare(live, m, op, outcome, expected) -> list of violation dicts (every transition)
    sys.save(live) / sys.restore(live, saved)   optional: in-place state restore so that a
                                 frontier state is rebuilt once and not once per op.  Every NEW
                                 state found that way is re-derived by replaying its whole
                                 history on fresh objects and must have the same canonical
                                 form (HARNESS-ERROR otherwise), so the shortcut cannot
                                 invent states.

States are identified with the history that first reached them (BFS order => shortest).
Level-synchronous; each level's frontier is split over the fork pool; results are merged
in frontier order so the exploration is deterministic.
"""
import hashlib

_SYS = None  # set in parent before the pool forks (workers inherit it)


def digest(canon):
    return hashlib.blake2b(repr(canon).encode(), digest_size=12).digest()


def replay(system, history):
    live = system.fresh()
    m = system.model_fresh()
    for oi in history:
        op = system.ops[oi]
        system.apply(live, op)
        system.model_apply(m, op)
    return live, m


def _expand_chunk(args):
    system = _SYS
    histories, op_indices = args
    out = []
    use_restore = hasattr(system, "save")
    for hist in histories:
        live, m = replay(system, hist)
        saved = system.save(live) if use_restore else None
        msaved = system.model_save(m) if use_restore else None
        for oi in op_indices:
            op = system.ops[oi]
            if use_restore:
                system.restore(live, saved)
                m2 = system.model_restore(msaved)
                l2 = live
            else:
                l2, m2 = replay(system, hist)
            try:
                outcome = system.apply(l2, op)
            except Exception as e:  # an op that the driver did not classify
                outcome = "crash:" + type(e).__name__
            expected = system.model_apply(m2, op)
            vs = []
            try:
                vs += system.compare(l2, m2, op, outcome, expected)
                vs += system.invariant(l2)
                dg = digest(system.canon(l2))
            except Exception as e:
                # observing the state failed: the object under test is in a condition its own accessors cannot
                # handle -- that is a finding about the code, not a reason to abort the search
                import traceback

                vs.append({"subcheck": "state-cannot-be-observed", "key": {"exc": type(e).__name__, "op": str(op.get("op", op))[:40]},
                           "detail": {"error": repr(e)[:200], "where": traceback.format_exc().strip().splitlines()[-3:]}})
                dg = digest(("unobservable", tuple(hist), oi))
            for v in vs:
                v["case"] = dict(getattr(system, "case_extra", {}), history=[system.ops[i] for i in hist] + [op])
            out.append((dg, outcome, vs))
    return out


def _verify_chunk(args):
    """Fresh replay of complete histories of NEW states; returns the digests and, if the
    system defines `state_check` (an expensive per-state oracle such as a save/load round
    trip), its violations — evaluated once per distinct state."""
    system = _SYS
    out = []
    for h in args:
        live = replay(system, h)[0]
        d = digest(system.canon(live))
        vs = []
        if hasattr(system, "state_check"):
            try:
                vs = system.state_check(live)
            except Exception as e:
                import traceback

                vs = [{"subcheck": "state-check-raises", "key": {"exc": type(e).__name__},
                       "detail": {"error": repr(e)[:200], "where": traceback.format_exc().strip().splitlines()[-3:]}}]
            for v in vs:
                v["case"] = dict(getattr(system, "case_extra", {}), history=[system.ops[i] for i in h])
        out.append((d, vs))
    return out


class Result:
    def __init__(self):
        self.states = 0
        self.transitions = 0
        self.depth_completed = 0
        self.levels = []
        self.outcomes = {}
        self.op_changed = {}
        self.violations = []
        self.capped = False
        self.replay_verified = 0
        self.frontiers = []  # histories per depth (kept when keep_frontiers)


class HarnessError(Exception):
    pass


def bfs(ctx, system, depth, op_indices=None, state_cap=4_000_000, chunk=64,
        init_histories=((),), keep_frontiers=False, max_violations=200, verify_chunk=256):
    global _SYS
    _SYS = system
    ctx.close()  # make sure the pool is (re)forked AFTER _SYS is set
    if op_indices is None:
        op_indices = list(range(len(system.ops)))
    res = Result()
    seen = {}
    frontier = []
    for h in init_histories:
        live, _m = replay(system, list(h))
        d = digest(system.canon(live))
        if d not in seen:
            seen[d] = tuple(h)
            frontier.append(tuple(h))
            res.violations += system.invariant(live)
            if hasattr(system, "state_check"):
                res.violations += system.state_check(live)
    res.states = len(seen)
    res.levels.append(len(frontier))
    if keep_frontiers:
        res.frontiers.append(list(frontier))
    for level in range(1, depth + 1):
        if not frontier:
            break
        chunks = [frontier[i:i + chunk] for i in range(0, len(frontier), chunk)]
        results = ctx.pmap(_expand_chunk, [(c, op_indices) for c in chunks], safe=False)
        new_frontier = []
        fi = 0
        for c, r in zip(chunks, results):
            k = 0
            for hist in c:
                own = digest_of_hist = None
                for oi in op_indices:
                    d, outcome, vs = r[k]
                    k += 1
                    res.transitions += 1
                    res.outcomes[outcome] = res.outcomes.get(outcome, 0) + 1
                    if vs and len(res.violations) < max_violations:
                        res.violations += vs
                    if d not in seen:
                        seen[d] = hist + (oi,)
                        new_frontier.append(hist + (oi,))
                        res.op_changed[oi] = res.op_changed.get(oi, 0) + 1
                fi += 1
        if (hasattr(system, "save") or hasattr(system, "state_check")) and new_frontier:
            vchunks = [new_frontier[i:i + verify_chunk] for i in range(0, len(new_frontier), verify_chunk)]
            vres = ctx.pmap(_verify_chunk, vchunks, safe=False)
            for vc, vr in zip(vchunks, vres):
                for h, (d, vs) in zip(vc, vr):
                    if seen.get(d) != h:
                        raise HarnessError(f"state reached by restore differs from fresh replay: {h}")
                    res.replay_verified += 1
                    if vs and len(res.violations) < max_violations:
                        res.violations += vs
        res.states = len(seen)
        res.depth_completed = level
        res.levels.append(len(new_frontier))
        frontier = new_frontier
        if keep_frontiers:
            res.frontiers.append(list(frontier))
        if res.states > state_cap and level < depth:
            res.capped = True      # the cap prevented a requested level: the run is NOT exhaustive to `depth`
            break
    return res
