"""Selects the radiant-voices tree under test and imports `rv` from it.

Default tree is /repo; RV_VERIF_REPO overrides it (used for seeded-fault runs against a
scratch worktree).  The tree's src/python is put FIRST on sys.path so that the editable
install in /venv (which points at /repo) cannot shadow a scratch tree, and the import is
asserted to come from the selected tree.
"""
import logging
import os
import sys

REPO = os.path.realpath(os.environ.get("RV_VERIF_REPO", "/repo"))
SRC = os.path.join(REPO, "src", "python")
FIXTURES = os.path.join(REPO, "tests", "files")
VERIF = os.path.dirname(os.path.dirname(os.path.abspath(__file__)))
# where evidence/ and replays/ are written; overridden for seeded-fault runs so that they never
# overwrite the evidence of the real tree
OUT = os.environ.get("RV_VERIF_OUT", VERIF)

_done = False


def setup():
    global _done
    if _done:
        return
    if SRC in sys.path:
        sys.path.remove(SRC)
    sys.path.insert(0, SRC)
    for name in [n for n in sys.modules if n == "rv" or n.startswith("rv.")]:
        del sys.modules[name]
    # rv logs range warnings etc. through `logging`; with no handler configured Python's
    # last-resort handler would print every one of them to stderr.
    logging.disable(logging.CRITICAL)
    import rv  # noqa

    assert os.path.realpath(rv.__file__).startswith(SRC + os.sep), (rv.__file__, SRC)
    import rv.api  # noqa  (forces the whole package: modules, readers, project)

    _done = True


def tree_commit():
    import subprocess

    try:
        sha = subprocess.run(
            ["git", "-C", REPO, "rev-parse", "--short", "HEAD"],
            capture_output=True, text=True, timeout=10,
        ).stdout.strip()
        dirty = subprocess.run(
            ["git", "-C", REPO, "status", "--porcelain", "--untracked-files=no"],
            capture_output=True, text=True, timeout=10,
        ).stdout.strip()
        return sha + ("+dirty" if dirty else "")
    except Exception:
        return "unknown"


def fixture_files():
    out = []
    for root, _dirs, files in os.walk(FIXTURES):
        for f in sorted(files):
            if f.endswith((".sunvox", ".sunsynth")):
                out.append(os.path.join(root, f))
    return sorted(out)
