"""rvref.spec -- tables loaded from ``specs/fileformat.yaml``.

Independent of the ``rv`` library: this module only reads the YAML file and
turns it into plain, read-only tables.  Source letters used in comments:

    D = docs/sunvox-file-format.rst     Y = specs/fileformat.yaml
    P = property text of the task       L = CHANGELOG.rst
    S = SunVox struct comments (as relayed by rvref/SHAPE.md)

DECISIONS (where the YAML is irregular)
  1. MetaModule declares its mappings chunk with the key ``chmm`` (typo for
     ``chnm``); both spellings are accepted and exposed as ``chnm``.
  2. A chunk declared with ``type: X`` (instead of inline ``parent_type``) is
     resolved through ``chunk_types`` by following ``parent_type`` links and
     merging keys (nearest definition wins), e.g. DrawnWaveform -> length 32.
  3. ``VorbisPlayer.data`` has no chunk number in the YAML; ``chnm`` is None
     there (the codec uses 0 from D).  SpectraVoice arrays have no ``length``
     in the YAML; ``length`` is None there (the codec uses 16 from D).
  4. Controller ``default`` is kept verbatim (enum member NAME, bool, int) and
     ``default_value`` is the same thing as a stored-domain int (enum member
     value, 0/1, int).  Same for options.
  5. The project-level ``chunks`` table is exposed verbatim (keyed by YAML
     name).  Note that the YAML gives ``cursor_line`` the id ``PATN`` (D says
     ``PATL``) and that ``chunk_sections.project.order`` uses names that do
     not all exist in ``chunks``; nothing is "fixed" here, the codec follows D.
"""

from __future__ import annotations

import functools
import os
from dataclasses import dataclass, field
from typing import Any

import yaml

DEFAULT_REPO = "/repo"
SPEC_RELATIVE_PATH = os.path.join("specs", "fileformat.yaml")

CONTROLLER_KINDS = ("range", "compact", "no_offset", "enum", "bool", "dependent")


def mangle(name: str) -> str:
    """Identifier mangling rule for enum member names (P, given in the task)."""
    text = str(name)
    for old, new in (
        ("/", "_div_"),
        ("*", "_mul_"),
        (".", "_"),
        ("+", "_plus_"),
        ("-", "_neg_"),
        ("^", "_pow_"),
    ):
        text = text.replace(old, new)
    if text[:1].isdigit():
        text = "_" + text
    elif text[:1] == "_":
        text = text[1:]
    while "__" in text:
        text = text.replace("__", "_")
    return text.lower()


@dataclass(frozen=True)
class ControllerSpec:
    index: int  # 0-based position = CVAL order (D: "controller 1..n")
    name: str  # YAML name, verbatim
    attr_name: str  # library attribute name: "in" is exposed as "in_"
    kind: str  # one of CONTROLLER_KINDS
    min: int | None
    max: int | None
    default: Any  # verbatim YAML default
    default_value: int | None  # stored-domain int
    units: str | None
    enum_name: str | None
    enum: dict | None  # {member_name (verbatim, str): value}
    enum_mangled: dict | None  # {mangled identifier: value}
    depends_on: str | None
    ranges: dict | None  # {unit member name (str): (min, max)}


@dataclass(frozen=True)
class OptionSpec:
    index: int
    name: str
    byte: int
    bit: int
    size: int
    number: int | None
    default: Any
    default_value: int
    inverted: bool
    exclusive_of: tuple
    min: int | None
    max: int | None
    enum_name: str | None
    enum: dict | None


@dataclass(frozen=True)
class ChunkSpec:
    name: str
    chnm: int | None
    type: str | None  # ``type:`` or ``parent_type:`` as written in the YAML
    base_type: str | None  # builtin reached through chunk_types (Array, Waveform, Data..)
    length: int | None
    element_type: str | None
    default: Any
    min: int | None
    max: int | None
    enum_name: str | None
    elements: tuple | None
    raw: dict = field(compare=False, hash=False, repr=False, default_factory=dict)


@dataclass(frozen=True)
class ModuleTypeSpec:
    key: str  # YAML key, e.g. "AnalogGenerator"
    type_string: str  # STYP text, e.g. "Analog generator"
    group: str | None
    default_flags: int | None
    enums: dict  # {enum name: {member name (str): value}}
    controllers: tuple  # of ControllerSpec, in CVAL order
    controllers_by_name: dict
    options: tuple  # of OptionSpec
    options_by_name: dict
    options_chnm: int | None
    chunks: tuple  # of ChunkSpec
    raw: dict = field(compare=False, hash=False, repr=False, default_factory=dict)


@dataclass(frozen=True)
class Spec:
    path: str
    types: dict  # {YAML key: ModuleTypeSpec}
    by_type_string: dict  # {STYP text: ModuleTypeSpec}
    chunks: dict  # project-level chunk table, verbatim (Y "chunks")
    chunk_sections: dict  # verbatim (Y "chunk_sections")
    chunk_types: dict  # verbatim (Y "chunk_types")
    file_types: dict  # verbatim (Y "file_types")


def _str_keys(mapping: dict | None) -> dict:
    # YAML enum member names are quoted, but be safe: "64" must stay a str.
    return {str(k): v for k, v in (mapping or {}).items()}


def _default_value(default: Any, enum: dict | None) -> int | None:
    if default is None:
        return None
    if isinstance(default, bool):
        return int(default)
    if enum is not None and str(default) in enum:
        return int(enum[str(default)])
    if isinstance(default, int):
        return default
    return None


def _controller(index: int, item: dict, enums: dict) -> ControllerSpec:
    # Y: each controller is a one-key dict {name: {...}}.
    ((name, body),) = item.items()
    body = body or {}
    enum_name = body.get("enum")
    enum = _str_keys(enums[enum_name]) if enum_name else None
    if "depends_on" in body:
        kind = "dependent"
    elif enum_name:
        kind = "enum"
    elif body.get("bool"):
        kind = "bool"
    elif body.get("compact"):
        kind = "compact"
    elif body.get("no_offset"):
        kind = "no_offset"
    else:
        kind = "range"
    ranges = None
    if "ranges" in body:
        ranges = {str(k): (int(v["min"]), int(v["max"])) for k, v in body["ranges"].items()}
    return ControllerSpec(
        index=index,
        name=str(name),
        attr_name="in_" if name == "in" else str(name),  # P: YAML "in" -> "in_"
        kind=kind,
        min=body.get("min"),
        max=body.get("max"),
        default=body.get("default"),
        default_value=_default_value(body.get("default"), enum),
        units=body.get("units"),
        enum_name=enum_name,
        enum=enum,
        enum_mangled={mangle(k): v for k, v in enum.items()} if enum else None,
        depends_on=body.get("depends_on"),
        ranges=ranges,
    )


def _option(index: int, item: dict, enums: dict) -> OptionSpec:
    ((name, body),) = item.items()
    enum_name = body.get("enum")
    enum = _str_keys(enums[enum_name]) if enum_name else None
    return OptionSpec(
        index=index,
        name=str(name),
        byte=int(body["byte"]),
        bit=int(body["bit"]),
        size=int(body["size"]),
        number=body.get("number"),
        default=body.get("default"),
        default_value=_default_value(body.get("default"), enum) or 0,
        inverted=bool(body.get("inverted", False)),
        exclusive_of=tuple(body.get("exclusive_of", ())),
        min=body.get("min"),
        max=body.get("max"),
        enum_name=enum_name,
        enum=enum,
    )


_BUILTIN_TYPES = ("Array", "Bitmap", "Data", "Enum", "Flags", "List", "Struct", "Waveform")


def _resolve_chunk_type(type_name: str | None, chunk_types: dict) -> tuple:
    """Follow parent_type links; return (merged keys, builtin base type name)."""
    merged: dict = {}
    seen = set()
    current = type_name
    while current is not None and current not in seen:
        seen.add(current)
        if current in _BUILTIN_TYPES:
            return merged, current
        definition = chunk_types.get(current)
        if not isinstance(definition, dict):
            return merged, current  # scalar, or unknown name: stop here
        for key, value in definition.items():
            merged.setdefault(key, value)  # nearest definition wins
        current = definition.get("parent_type")
    return merged, current


def _chunk(item: dict, chunk_types: dict) -> ChunkSpec:
    type_name = item.get("type", item.get("parent_type"))
    inherited, base = _resolve_chunk_type(type_name, chunk_types)
    merged = dict(inherited)
    merged.update(item)  # inline keys win over inherited ones
    chnm = item.get("chnm", item.get("chmm"))  # DECISION 1
    elements = merged.get("elements")
    return ChunkSpec(
        name=str(item["name"]),
        chnm=chnm,
        type=type_name,
        base_type=base,
        length=merged.get("length"),
        element_type=merged.get("element_type"),
        default=merged.get("default"),
        min=merged.get("min"),
        max=merged.get("max"),
        enum_name=merged.get("enum"),
        elements=tuple(elements) if elements else None,
        raw=dict(item),
    )


def _module_type(key: str, body: dict, chunk_types: dict) -> ModuleTypeSpec:
    enums = {name: _str_keys(members) for name, members in (body.get("enums") or {}).items()}
    controllers = tuple(
        _controller(i, item, enums) for i, item in enumerate(body.get("controllers") or [])
    )
    options = tuple(_option(i, item, enums) for i, item in enumerate(body.get("options") or []))
    chunks = tuple(_chunk(item, chunk_types) for item in (body.get("chunks") or []))
    return ModuleTypeSpec(
        key=key,
        type_string=str(body.get("type", key)),  # Y: "type (string) ... if different than class name"
        group=body.get("group"),
        default_flags=body.get("defaultFlags"),
        enums=enums,
        controllers=controllers,
        controllers_by_name={c.name: c for c in controllers},
        options=options,
        options_by_name={o.name: o for o in options},
        options_chnm=body.get("options_chnm"),
        chunks=chunks,
        raw=body,
    )


def repo_root(repo: str | None = None) -> str:
    return repo or os.environ.get("RV_VERIF_REPO") or DEFAULT_REPO


@functools.lru_cache(maxsize=None)
def _load(path: str) -> Spec:
    with open(path, "r", encoding="utf-8") as handle:
        document = yaml.safe_load(handle)
    chunk_types = document.get("chunk_types") or {}
    types = {
        key: _module_type(key, body or {}, chunk_types)
        for key, body in (document.get("module_types") or {}).items()
    }
    return Spec(
        path=path,
        types=types,
        by_type_string={t.type_string: t for t in types.values()},
        chunks=document.get("chunks") or {},
        chunk_sections=document.get("chunk_sections") or {},
        chunk_types=chunk_types,
        file_types=document.get("file_types") or {},
    )


def load_spec(repo: str | None = None) -> Spec:
    """Load (once per path) the tables from ``<repo>/specs/fileformat.yaml``.

    ``repo`` defaults to the environment variable RV_VERIF_REPO, then /repo.
    """
    return _load(os.path.join(repo_root(repo), SPEC_RELATIVE_PATH))
