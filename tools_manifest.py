#!/venv/bin/python
"""Regenerates MANIFEST.json from the table below (kept in one place so it stays valid)."""
import json, os

HERE = os.path.dirname(os.path.abspath(__file__))

CHECKS = {
 "C01": dict(level="model_checking", ref="DESIGN.md §5 C01",
   technique="deviation-bounded exhaustive enumeration of projects + explicit-state BFS of a builder machine, save/load round trip as per-state oracle",
   text="Every project with at most one deviation from the default (each project field x width corners, 146 names placing a 1-4 byte character at every offset around the 32-byte limit, every pattern/clone/empty sequence of length <= 3, every NOTECMD and 16-bit corner in note cells, each of 42 module types x every single deviation of its controllers/options/common fields/MIDI bindings/payload arrays, linked type pairs) and every state of a builder machine (attach/empty slot/connect/disconnect/pattern/note/field/controller ops, depth 5 quick / 6 thorough) is saved and loaded; the loaded snapshot must equal the original and the load must not raise.",
   note="Trusted: rvmc.snapshot lists every serialised public attribute; names compare up to the documented 32-byte prefix; sunvox_version (writer version) is not varied. Bounded as stated; k=2 only for module-type pairs."),
 "C02": dict(level="exploration", ref="DESIGN.md §5 C02",
   technique="deviation-bounded exhaustive input enumeration (k=1 quick, k=2 thorough) on the real writers/readers",
   text="For each of the 42 non-Output types the default module and every single deviation (every controller x boundary alphabet, every enum member, unit-dependent ranges under every unit, every option value, common fields at documented corners, MIDI bindings, every array element spike and fill pattern) goes through Synth write/read, Module.clone() and Project write/read; snapshots must be equal per context and across contexts; thorough adds every compatible pair of deviations within a type. Synth(None) must refuse to serialise.",
   note="Trusted: rvmc.snapshot; N8 (placement/links not in sunsynth files). Exhaustive inside the stated deviation bound and alphabets only."),
 "C09": dict(level="exploration", ref="DESIGN.md §5 C09",
   technique="complete boundary enumeration of (controller, mode, assignment sequence of length <= 2)",
   text="All 43 types x 502 specified controllers (list from the YAML): default value and type vs the spec; every boundary/interior/out-of-range value, every enum member as member/int/name plus invalid names and values, booleans; strict and lenient mode; attribute and constructor paths; every ordered pair (v1, v2) so that a rejected assignment is checked against every previous value; a failed assignment must leave the whole module snapshot unchanged.",
   note="Ground truth is the YAML. Unit-dependent ranges are not 'fixed ranges' (warn-only by design). Values are boundary-complete, not every integer (C10 does that)."),
 "C10": dict(level="exploration", ref="DESIGN.md §5 C10",
   technique="complete enumeration of the finite domain (3.6 million controller/value pairs)",
   text="Every integer of every range of every specified controller (every unit variant), every enum member, both booleans: value -> stored -> value is the identity, stored = v - min iff min < 0 (no-offset kind: v), never negative, injective; pattern-column value non-decreasing with min -> 0 and max -> 0x8000, compact kind v - min. The whole domain is enumerated in both tiers.",
   note="Ground truth for kinds/bounds is the YAML. MetaModule proxy controllers are handled in C15."),
 "C11": dict(level="exploration", ref="DESIGN.md §5 C11",
   technique="complete enumeration of option values and value pairs + bounded exhaustive assignment sequences",
   text="All 49 options of the 5 option-bearing types: static bit-range disjointness (YAML and classes); every representable value of every option with every value of every other option (both orders, both writers) reads back after save/load and sits at its declared bits in the written record (decoded independently by rvref), inverted options stored complemented, record covers the highest byte, no stray bits; 2^6 joint-assignment windows; all assignment sequences up to depth 3 (4 thorough) over exclusive/inverted options never leave two exclusive options on; every integer -2..258 on bounded options reads back clamped.",
   note="Trusted: rvref.codec chunk parser, YAML option table. Switching an exclusive partner off when an option is switched OFF is neither demanded nor forbidden."),
 "C13": dict(level="exploration", ref="DESIGN.md §5 C13",
   technique="complete comparison of two finite tables + regeneration of generated sources",
   text="Every field the property names (registration, class name, group, default flags, controller order/number/kind/bounds/enum members/default/unit tables, option byte/bit/size/number/default/inversion/exclusivity/bounds/chunk number, array chunks) is compared for all 43 types / 502 controllers / 49 options between the imported classes and the YAML read independently of the generator; all 43 base files are regenerated from the working tree's generator and must be byte-identical to the checked-in files.",
   note="The YAML is the ground truth; genrv/black/isort as installed are used for regeneration."),
 "C07": dict(level="model_checking", ref="DESIGN.md §5 C07",
   technique="explicit-state BFS over the real Project.connect with a lock-step reference model (bounded model checking of the implementation)",
   text="Every state of a 4-module project reachable by single-operand connect/disconnect requests up to depth 5 (thorough 6), and by the full list/~ alphabet up to depth 2 (thorough 3), satisfies the mutual-consistency invariants I1-I4, and on every transition the connection set equals the reference model's; operator sugar is checked against its method form from every state of depth <= 2; requests naming a foreign module must be refused. Exhaustive within those bounds, nothing sampled.",
   note="Trusted: rvref.model.LinkModel (edge-set semantics read off the property), the harness's table reader. Bounded to 4 local modules and the stated depths; `~x >> y` is outside the alphabet."),
}

NOT_YET = {}

def main():
    props = [json.loads(l) for l in open(os.path.join(HERE, "properties.jsonl"))]
    checks = []
    na = []
    for p in props:
        pid = p["id"]
        c = CHECKS.get(pid)
        if c is None:
            na.append({"property_id": pid, "reason": NOT_YET.get(pid, "check not built yet in this revision of /verif (planned, see DESIGN.md §5)")})
            continue
        checks.append({
            "property_id": pid,
            "quick_cmd": f"./check {pid} --tier quick",
            "thorough_cmd": f"./check {pid} --tier thorough",
            "evidence_file": f"/verif/evidence/{pid}.json",
            "replay_cmd_template": f"./check {pid} --replay {{path}}",
            "engine": "rvmc",
            "level_claimed": {"category": c["level"], "text": c["text"], "design_ref": c["ref"]},
            "level_note": c["note"],
            "technique": c["technique"],
        })
    man = {
        "version": 1,
        "setup_cmd": "true",
        "hooks": {
            "guard": "RV_VERIF",
            "enable": "no source hooks are needed: every property is observed through public attributes, written bytes and file objects supplied by the checks; checks import rv from /repo/src/python (or $RV_VERIF_REPO)",
            "baseline_off_cmd": "cd /repo && /venv/bin/python -m pytest -ra -q -p no:cacheprovider --timeout=900 --continue-on-collection-errors",
            "source_commits": [],
            "add_only": True,
        },
        "engines": [
            {"name": "rvmc", "path": "/verif/rvmc", "serves_properties": sorted(CHECKS),
             "kind_free_text": "hand-written bounded exhaustive explorer for Python: explicit-state BFS with history replay and lock-step reference model (E-BFS), deviation-bounded exhaustive input enumeration (E-DEV), fault-point enumeration (E-FLT); runs the real rv code"},
            {"name": "rvref", "path": "/verif/rvref", "serves_properties": sorted(CHECKS),
             "kind_free_text": "independent reference: YAML spec tables, file-format decoder/encoder and API reference model; never imports rv"},
        ],
        "checks": checks,
        "not_applicable": na,
        "notes": "Model checking of a sequential library: all operation sequences / inputs / fault points inside stated bounds, against reference models. See DESIGN.md.",
    }
    with open(os.path.join(HERE, "MANIFEST.json"), "w") as f:
        json.dump(man, f, indent=1)
    print("MANIFEST.json:", len(checks), "checks,", len(na), "not_applicable")

if __name__ == "__main__":
    main()
