"""C19 — bulk pattern edits are all-or-nothing and notes stay owned by their pattern.

E-FLT + E-BFS: pattern shapes lines x tracks in {1,2,3}^2 (thorough {1..4}^2), attached and not
attached to a project; operations set_via_fn(ok_A | ok_B | fail at cell k, for EVERY k) and
set_via_gen(yields a subset S of cells | fails after j yields, for EVERY j <= |S|) with S in
{none, each single cell, a row, all}; histories of length <= 2 (thorough 3), so a failure
after a success and a success after a failure are both covered.  Reference: a grid of 5-tuples.
"""
import itertools

from checks import common as C
from rvmc import treeenv

PROPERTY = "C19"
LEVEL = "fault_enumeration"
ASSUMPTIONS = [
    "the supplied callable fails by raising an exception at a chosen cell / yield index (single fault per edit)",
    "notes supplied by the callable are fresh Note objects (the documented use)",
]


class Boom(Exception):
    pass


def _exc(op):
    name = op.get("exc")
    if not name:
        return Boom()
    return {"StopIteration": StopIteration, "IndexError": IndexError, "KeyError": KeyError, "GeneratorExit": GeneratorExit}[name]("from the callable")


def cell_value(tag, line, track):
    base = {"A": 10, "B": 50}[tag]
    return (base + line * 4 + track, 1 + line, 0, (track << 8) | line, 0x100 * line + track + 1)


def op_list(lines, tracks):
    cells = [(l, t) for l in range(lines) for t in range(tracks)]
    ops = [{"op": "fn", "tag": "A", "fail": None}, {"op": "fn", "tag": "B", "fail": None}]
    for k in range(len(cells)):
        ops.append({"op": "fn", "tag": "B", "fail": k})
    # the callable may hand back note objects that ALREADY sit in the pattern (keep this cell) next to new ones
    ops.append({"op": "fn", "tag": "B", "fail": None, "keep": "even"})
    ops.append({"op": "fn", "tag": "A", "fail": None, "keep": "all"})
    # ... or the SAME new note object for every cell
    ops.append({"op": "fn", "tag": "A", "fail": None, "shared": True})
    # the callable may fail with ANY exception class -- also one that iteration machinery treats specially
    for k in sorted({0, len(cells) // 2, len(cells) - 1}):
        for exc in ("StopIteration", "IndexError", "KeyError", "GeneratorExit"):
            ops.append({"op": "fn", "tag": "B", "fail": k, "exc": exc})
    # the callable may hand back the pattern's OWN note objects at OTHER cells (rotate the lines), or one note object the
    # caller keeps across edits, placed at a different cell each time
    ops.append({"op": "fn", "tag": "A", "fail": None, "keep": "rotate"})
    for k in sorted({0, len(cells) - 1}):
        ops.append({"op": "fn", "tag": "A", "fail": None, "keep": "all", "own": k})
    # the callable may not raise at all but hand back something that is not a Note: if the library refuses the edit
    # (any exception), the refusal is a failed edit like any other
    for k in sorted({0, len(cells) // 2, len(cells) - 1}):
        ops.append({"op": "fn", "tag": "B", "fail": k, "junk": True})
    subsets = [("none", [])] + [(f"cell{k}", [cells[k]]) for k in range(len(cells))]
    subsets.append(("row0", [c for c in cells if c[0] == 0]))
    subsets.append(("all", cells))
    # the generator may also write a new note DIRECTLY into the working array it is handed ("possible but discouraged")
    ops.append({"op": "gen", "tag": "B", "subset": "direct", "cells": [list(cells[-1])], "fail": None, "direct": [list(cells[0])]})
    # ... or change the notes of the working array IN PLACE (they are copies: nothing reaches the pattern unless the edit
    # completes), then complete or fail; or yield something that is not a Note
    for j in (None, 0, 1):
        ops.append({"op": "gen", "tag": "B", "subset": "inplace", "cells": [list(cells[-1])], "fail": j, "inplace": [list(cells[0]), list(cells[-1])]})
    for j in sorted({0, len(cells) - 1}):
        ops.append({"op": "gen", "tag": "B", "subset": "all", "cells": [list(c) for c in cells], "fail": j, "junk": True})
    for name, S in subsets:
        for j in [None] + list(range(len(S) + 1)):
            ops.append({"op": "gen", "tag": "A" if name != "all" else "B", "subset": name, "cells": [list(c) for c in S], "fail": j})
    return ops


def apply_op(pat, grid, op, lines, tracks, state=None):
    """Applies op to the real pattern and the reference grid; returns (raised, expected_raise)."""
    from rv.note import NOTECMD, Note

    def mk(tag, l, t):
        v = cell_value(tag, l, t)
        return Note(note=NOTECMD(v[0]), vel=v[1], module=v[2], ctl=v[3], val=v[4])

    new = [row[:] for row in grid]
    if op["op"] == "fn":
        count = [0]
        shared_note = mk(op["tag"], 0, 0) if op.get("shared") else None

        state = state if state is not None else {}
        if "own" in op and "own" not in state:
            state["own"] = Note(note=NOTECMD(77), vel=77, module=0, ctl=0x0707, val=0x7777)
        own_cell = (77, 77, 0, 0x0707, 0x7777)

        def fn(p, line, track):
            k = count[0]
            count[0] += 1
            if op["fail"] is not None and k == op["fail"]:
                if op.get("junk"):
                    return None
                raise _exc(op)
            if "own" in op and k == op["own"]:
                return state["own"]
            if op.get("keep") == "rotate":
                return p.data[(line + 1) % lines][track]
            if op.get("keep") == "all" or (op.get("keep") == "even" and k % 2 == 0):
                return p.data[line][track]
            if shared_note is not None:
                return shared_note
            return mk(op["tag"], line, track)

        expect_fail = op["fail"] is not None
        if not expect_fail:
            k2 = 0
            for l in range(lines):
                for t in range(tracks):
                    if "own" in op and k2 == op["own"]:
                        new[l][t] = own_cell
                    elif op.get("keep") == "rotate":
                        new[l][t] = grid[(l + 1) % lines][t]
                    elif not (op.get("keep") == "all" or (op.get("keep") == "even" and k2 % 2 == 0)):
                        new[l][t] = cell_value(op["tag"], 0, 0) if op.get("shared") else cell_value(op["tag"], l, t)
                    k2 += 1
        try:
            pat.set_via_fn(fn)
            raised = False
        except Boom:
            raised = True
        except BaseException as e:
            # the callable's own exception class (or RuntimeError wrapping a StopIteration) counts as "the callable
            # failed"; any other error is NOT the callable's: the edit itself broke
            if op.get("exc") and type(e).__name__ in (op["exc"], "RuntimeError"):
                raised = True
            elif op.get("junk") and isinstance(e, Exception):
                raised = True  # the library refused what the callable handed back
            elif isinstance(e, Exception):
                raised = "other:" + type(e).__name__
            else:
                raise
    else:
        S = [tuple(c) for c in op["cells"]]

        def gen(p, data):
            for (dl, dt) in [tuple(c) for c in op.get("direct", [])]:
                data[dl][dt] = mk("A", dl, dt)
            for (dl, dt) in [tuple(c) for c in op.get("inplace", [])]:
                data[dl][dt].vel = 99
                data[dl][dt].val = 0x6363
            for i, (l, t) in enumerate(S):
                if op["fail"] is not None and i == op["fail"]:
                    if op.get("junk"):
                        yield l, t, "C4"
                        continue
                    raise Boom()
                yield l, t, mk(op["tag"], l, t)
            if op["fail"] is not None and op["fail"] == len(S):
                raise Boom()

        expect_fail = op["fail"] is not None
        if not expect_fail:
            for (dl, dt) in [tuple(c) for c in op.get("direct", [])]:
                new[dl][dt] = cell_value("A", dl, dt)
            for (dl, dt) in [tuple(c) for c in op.get("inplace", [])]:
                c = new[dl][dt]
                new[dl][dt] = (c[0], 99, c[2], c[3], 0x6363)
            for (l, t) in S:
                new[l][t] = cell_value(op["tag"], l, t)
        try:
            pat.set_via_gen(gen)
            raised = False
        except Boom:
            raised = True
        except Exception as e:
            raised = True if op.get("junk") else "other:" + type(e).__name__
    return raised, expect_fail, (grid if expect_fail else new)


def grid_of(pat):
    return [[(int(n.note), n.vel, n.module, n.ctl, n.val) for n in line] for line in pat.data]


SPARSE = [  # one-field-only cells: a copy that keys on "is this note empty?" must not lose them
    (0, 0, 7, 0, 0), (0, 5, 0, 0, 0), (0, 0, 0, 0x0300, 0), (0, 0, 0, 0, 0x1234), (0, 0, 0, 0, 0), (61, 0, 0, 0, 0),
]


def run_history(lines, tracks, attached, hist, initial="dense"):
    import rv.api as rv

    vs = []
    case = {"shape": [lines, tracks], "attached": attached, "history": hist, "initial": initial}
    old_tracks = None
    if initial.startswith("reshaped"):
        old_tracks = tracks + (1 if initial.endswith("+") else -1)
        if old_tracks < 1:
            return []
    pat = rv.Pattern(lines=lines, tracks=old_tracks or tracks)
    proj = None
    if attached:
        proj = rv.Project()
        proj.new_module(rv.m.Amplifier)
        if attached in ("rich", "rich-saved"):
            # the pattern lives in a FULL project: one module of every type (arrays, waveforms, an embedded project, a
            # sampler with a sample and an effect), links, another pattern and a clone of it -- a bulk edit that copies
            # or walks more than the pattern itself meets all of it
            from rvmc import deviate

            for tk in deviate.type_keys():
                if tk != "Output":
                    proj.attach_module(deviate.new_module(tk))
            smp = next(m for m in proj.modules if m.mtype == "Sampler")
            s0 = smp.Sample()
            s0.data = bytes(range(64))
            smp.samples[0] = s0
            smp.effect = rv.Synth(rv.m.Reverb())
            mm = next(m for m in proj.modules if m.mtype == "MetaModule")
            mm.project.new_module(rv.m.Generator)
            for m in proj.modules[1:6]:
                proj.connect(m, proj.output)
            proj.attach_pattern(rv.Pattern(lines=2, tracks=2))
            proj.attach_pattern(rv.PatternClone(source=0))
        proj.attach_pattern(pat)
        if attached == "rich-saved":
            # ... and the project has been serialised and cloned once before the first bulk edit (whatever a save leaves
            # behind in the modules is then part of what the edit may meet)
            proj.read()
            proj.clone()
    # start from a non-empty pattern so "keeps previous content" is observable
    if initial.startswith("reshaped"):
        # the pattern had ANOTHER track count, was filled by a bulk edit, then re-shaped (tracks assigned, clear()):
        # the grid the next edit meets must be the new shape, all empty
        pass
    if old_tracks is not None:
        pat.set_via_fn(lambda p_, l_, t_: rv.Note(note=rv.NOTECMD(49), vel=11, module=2, ctl=0x0102, val=0x0304))
        pat.tracks = tracks
        pat.clear()
        grid = [[(0, 0, 0, 0, 0) for _t in range(tracks)] for _l in range(lines)]
    elif initial == "relined":
        # the pattern was SHORTENED by one line, edited in bulk (only the lines it then had), and lengthened again: the
        # line that was out of reach keeps what it held, and every later edit covers all lines again
        if lines < 2:
            return []
        for l in range(lines):
            for t in range(tracks):
                n = pat.data[l][t]
                n.note, n.vel, n.ctl, n.val = rv.NOTECMD(100 + l), 3, t, l
        grid = grid_of(pat)
        pat.lines = lines - 1
        pat.set_via_fn(lambda p_, l_, t_: rv.Note(note=rv.NOTECMD(49), vel=11, module=2, ctl=0x0102, val=0x0304))
        pat.lines = lines
        for l in range(lines - 1):
            for t in range(tracks):
                grid[l][t] = (49, 11, 2, 0x0102, 0x0304)
    elif initial == "foreign":
        # contents as a file written by another program may hold them: note codes without a named command, velocities
        # above 129 (the byte image accepts any byte) -- untouched cells keep them, edits around them still work
        from struct import pack

        codes = [125, 135, 255, 121, 141, 127]
        pat.raw_data = b"".join(pack("<BBHHH", codes[(l * tracks + t) % 6], 130 + ((l + t) % 100), 1 + t, 0x0100 + l, t)
                                for l in range(lines) for t in range(tracks))
        grid = [[(codes[(l * tracks + t) % 6], 130 + ((l + t) % 100), 1 + t, 0x0100 + l, t) for t in range(tracks)] for l in range(lines)]
    elif initial == "untouched":
        # a freshly constructed pattern whose note grid has NEVER been read or written before the first bulk
        # edit (no `.data` / `.raw_data` access by the harness either): its content is all-empty cells
        grid = [[(0, 0, 0, 0, 0) for _t in range(tracks)] for _l in range(lines)]
    else:
        off = {"dense": None, "sparse0": 0, "sparse3": 3}[initial]
        for l in range(lines):
            for t in range(tracks):
                n = pat.data[l][t]
                if off is None:
                    n.note, n.vel, n.ctl, n.val = rv.NOTECMD(100 + l), 3, t, l
                else:
                    c = SPARSE[(l * tracks + t + off) % len(SPARSE)]
                    n.note, n.vel, n.module, n.ctl, n.val = rv.NOTECMD(c[0]), c[1], c[2], c[3], c[4]
        grid = grid_of(pat)
    hstate = {}
    for i, op in enumerate(hist):
        kind = op["op"] + ("-fail" if op["fail"] is not None else "-ok")
        key = {"op": kind, "attached": attached, "initial": initial.rstrip("03+-")}
        if op.get("exc"):
            key["exc"] = op["exc"]
        for extra in ("junk", "own", "inplace"):
            if extra in op:
                key[extra] = True
        if op.get("keep") == "rotate":
            key["rotate"] = True
        if initial == "untouched" and i > 0:
            key["initial"] = "untouched-then-edited"
        raw_before = pat.raw_data if not (initial == "untouched" and i == 0) else bytes(8 * lines * tracks)
        if "inplace" in op and not (initial == "untouched" and i == 0) and len({id(n) for row in pat.data for n in row}) != lines * tracks:
            break  # an earlier op put ONE note object into several cells: what an in-place change of it means is not stated
        raised, expect_fail, expected = apply_op(pat, grid, op, lines, tracks, hstate)
        if op.get("junk") and raised is False:
            break  # the tree accepts the value: nothing is stated about what the pattern then holds
        got = grid_of(pat)
        if raised != expect_fail:
            vs.append(C.viol("unexpected-outcome", key, {"raised": raised}, case))
            break
        if expect_fail:
            if got != grid or pat.raw_data != raw_before:
                vs.append(C.viol("failed-edit-changed-pattern", key, {"before": grid, "after": got, "step": i}, case))
                break
        else:
            if got != expected:
                vs.append(C.viol("successful-edit-wrong-content", key, {"expected": expected, "observed": got, "step": i}, case))
                break
            # the pattern's byte image is the documented packing of exactly those cells (note, velocity, module,
            # controller/effect word, parameter word; little endian) -- packed here, not by the library
            from struct import pack

            image = b"".join(pack("<BBHHH", *cell) for row in expected for cell in row)
            if pat.raw_data != image:
                vs.append(C.viol("successful-edit-wrong-bytes", key, {"step": i}, case))
                break
            if len(pat.data) != lines or any(len(r) != tracks for r in pat.data):
                vs.append(C.viol("shape-changed", key, {}, case))
            bad = [(l, t) for l in range(lines) for t in range(tracks) if pat.data[l][t].pattern is not pat]
            if bad:
                vs.append(C.viol("note-not-owned-by-pattern", dict(key, subset=op.get("subset", "all")),
                                 {"cells": bad[:6], "step": i}, case))
                break
            if attached:
                try:
                    n = pat.data[0][0]
                    n.module = 2
                    ok = n.project is proj and n.mod is proj.modules[1]
                    n.module = expected[0][0][2]
                except Exception as e:
                    ok = False
                if not ok:
                    vs.append(C.viol("project-aware-accessor-broken", key, {"step": i}, case))
                    break
        grid = expected
    return vs


def run_case(case):
    return run_history(case["shape"][0], case["shape"][1], case["attached"], case["history"], case.get("initial", "dense"))


def _task(t):
    lines, tracks, attached, depth, first_lo, first_hi = t
    r = C.new_result()
    ops = op_list(lines, tracks)
    outcomes = set()
    for first in ops[first_lo:first_hi]:
        for rest in itertools.chain.from_iterable(itertools.product(ops, repeat=d) for d in range(0, depth)):
            hist = [first] + list(rest)
            for initial in ("dense", "sparse0", "sparse3", "untouched") + (("reshaped+", "reshaped-", "foreign", "relined") if len(hist) == 1 else ()):
                vs = run_history(lines, tracks, attached, hist, initial)
                r["evals"] += 1
                C.count(r, "histories")
                outcomes.add((initial,) + tuple((o["op"], o["fail"] is not None) for o in hist))
                if len(r["violations"]) < 30:
                    r["violations"] += vs
    r["digests"] = {repr(o).encode() for o in outcomes}
    r["sample"] = {"shape": [lines, tracks], "attached": attached, "history": [ops[first_lo], ops[-1]]}
    return r


def core_ops(lines, tracks):
    """A small sub-alphabet for depth-3 histories: edits that MOVE note objects the pattern or the caller already holds,
    next to a plain, a failing and an empty edit."""
    out = []
    for op in op_list(lines, tracks):
        if op["op"] == "fn" and (op.get("keep") == "rotate" or "own" in op or (op.get("keep") == "all" and "own" not in op)):
            out.append(op)
        elif op["op"] == "fn" and op["fail"] == 0 and not op.get("exc") and not op.get("junk"):
            out.append(op)
        elif op["op"] == "fn" and op["fail"] is None and op["tag"] == "B" and not op.get("keep"):
            out.append(op)
        elif op["op"] == "gen" and op.get("subset") == "none" and op["fail"] is None:
            out.append(op)
        elif op["op"] == "gen" and op.get("subset") == "inplace" and op["fail"] in (None, 1):
            out.append(op)
    return out


def _task3(t):
    lines, tracks, attached = t
    r = C.new_result()
    ops = core_ops(lines, tracks)
    outcomes = set()
    for hist in itertools.product(ops, repeat=3):
        for initial in ("dense", "untouched"):
            vs = run_history(lines, tracks, attached, list(hist), initial)
            r["evals"] += 1
            C.count(r, "histories_depth3_core")
            outcomes.add((initial,) + tuple((o["op"], o["fail"] is not None, o.get("keep"), o.get("own")) for o in hist))
            if len(r["violations"]) < 30:
                r["violations"] += vs
    r["digests"] = {repr(o).encode() for o in outcomes}
    return r


def _dispatch(t):
    return _task3(t[1:]) if t[0] == "deep3" else _task(t)


def run(ctx):
    treeenv.setup()
    rng = (1, 2, 3, 4) if ctx.thorough else (1, 2, 3)
    depth = 3 if ctx.thorough else 2
    tasks = []
    for lines in rng:
        for tracks in rng:
            if ctx.thorough and lines * tracks > 9 and depth == 3:
                d = 2
            else:
                d = depth
            n = len(op_list(lines, tracks))
            for attached in (False, True) + (("rich", "rich-saved") if (lines, tracks) == (2, 2) else ()):
                step = 4 if d == 3 else 16
                for lo in range(0, n, step):
                    tasks.append((lines, tracks, attached, 1 if attached in ("rich", "rich-saved") else d, lo, min(n, lo + step)))
    for lines in (1, 2, 3):
        for tracks in (1, 2, 3):
            for attached in (False, True):
                tasks.append(("deep3", lines, tracks, attached))
    from rvmc.runner import rotate

    agg = C.Agg()
    for r in ctx.pmap(_dispatch, rotate(tasks, ctx.seed)):
        agg.merge(r)
    ctx.add(agg.violations)
    return {
        "evaluations": agg.evals,
        "distinct_nontrivial": len(agg.digests),
        "rule": "every history of bulk edits up to the depth over {fn ok A/B, fn failing at every cell, gen yielding "
                "none/each cell/a row/all and failing after every yield count}; distinct_nontrivial = distinct (op kind, "
                "fails?) sequences",
        "exhaustive": True,
        "shapes": [list(rng), list(rng)], "history_depth": depth,
        "samples": agg.samples,
    }
